#!/bin/bash
# final_refresh.sh: rewrite every evidence file from a quick run in /verif against /repo, validate, regenerate DESIGN tables
cd /verif
rc=0
for p in C01 C02 C05 C10 C12 C13 C15 C17 C18 C19 C20; do
  ./check $p --tier quick | grep -v "^KNOWN\|^WARNING\|^check" | tail -1
  [ ${PIPESTATUS[0]} -ne 0 ] && rc=1
done
python3-vt - <<'PY'
import json, jsonschema, glob
jsonschema.validate(json.load(open('/verif/MANIFEST.json')), json.load(open('/root/.vp/MANIFEST.schema.json')))
sch = json.load(open('/root/.vp/EVIDENCE.schema.json'))
for f in sorted(glob.glob('/verif/evidence/*.json')):
    jsonschema.validate(json.load(open(f)), sch)
print('manifest + evidence valid')
PY
tools/gen_design_tables.py
exit $rc
