#!/bin/bash
# try_seed.sh <seed dir containing patch.diff demo.py meta.json> <PID> [extra check args]
# demo on clean scratch (must PASS), apply patch, demo (must FAIL), then the property's quick check (corpus off) against the scratch.
d=$1; pid=$2; shift 2
sc=$(mktemp -d -p /var/tmp verif-scratch-XXXX)
cp -r /repo/rdflib $sc/rdflib; find $sc -name __pycache__ -prune -exec rm -rf {} +
( cd $sc && timeout 120 /venv/bin/python $d/demo.py >$sc/demo0.out 2>&1 ); r0=$?
( cd / && git apply --unsafe-paths --directory $sc $d/patch.diff ) || { echo "PATCH-DOES-NOT-APPLY $d"; ( cd $sc && patch -p1 --dry-run < $d/patch.diff | tail -5 ); rm -rf $sc; exit 3; }
( cd $sc && timeout 120 /venv/bin/python $d/demo.py >$sc/demo1.out 2>&1 ); r1=$?
echo "demo clean rc=$r0 ($(tail -1 $sc/demo0.out | cut -c1-100)); patched rc=$r1 ($(tail -1 $sc/demo1.out | cut -c1-160))"
cd /verif && VERIF_REPO=$sc VERIF_NO_CORPUS=1 VERIF_EVIDENCE_DIR=$sc/ev ./check $pid "$@" | grep -E "^(violation|VIOLATION|HARNESS|C[0-9]+:)" | cut -c1-400
rm -rf $sc
