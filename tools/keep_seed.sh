#!/bin/bash
# keep_seed.sh <src dir> <name> <PID>: confirm (demo passes on clean HEAD, fails with the patch; full suite still passes with the patch), then
# store as /verif/seeded/<name>/ {patch.diff, demo.py, meta.json}
src=$1; name=$2; pid=$3
sc=$(mktemp -d -p /var/tmp verif-scratch-XXXX)
cp -r /repo/rdflib $sc/rdflib
( cd $sc && timeout 300 /venv/bin/python $src/demo.py >$sc/d0 2>&1 ); r0=$?
( cd / && git apply --unsafe-paths --directory $sc $src/patch.diff ) || { echo "$name: PATCH-DOES-NOT-APPLY"; rm -rf $sc; exit 3; }
( cd $sc && timeout 300 /venv/bin/python $src/demo.py >$sc/d1 2>&1 ); r1=$?
rm -rf $sc
if [ $r0 -ne 0 ] || [ $r1 -eq 0 ]; then echo "$name: DEMO-NOT-CONFIRMED clean=$r0 patched=$r1"; exit 4; fi
/verif/tools/verify_seed_suite.sh $src > /dev/null 2>&1
nbad=$(grep -o "stable tests failing with the patch: [0-9]*" $src/suite_result.txt | grep -o "[0-9]*$")
if [ "$nbad" != "0" ]; then echo "$name: SUITE-FAILS ($nbad)"; cat $src/suite_result.txt | head; exit 5; fi
out=/verif/seeded/$name; mkdir -p $out
cp $src/patch.diff $src/demo.py $out/
/venv/bin/python - $src/meta.json $out/meta.json $pid "$(git -C /repo rev-parse --short HEAD)" "$(tail -1 $src/suite_result.txt)" <<'PY'
import json, sys
m = json.load(open(sys.argv[1]))
m['property'] = sys.argv[3]
m['origin'] = 'independent sub-agent given only the property text and a scratch worktree'
m['confirmed'] = {'rdflib_head': sys.argv[4], 'demo': 'exit 0 on the clean tree, exit 1 with patch.diff applied (tools/keep_seed.sh)', 'suite': 'full pytest suite with the patch applied in a scratch worktree: 0 stable tests failing; ' + sys.argv[5]}
json.dump(m, open(sys.argv[2], 'w'), indent=1)
PY
echo "$name: kept"
