#!/usr/bin/env python3
"""mkmutant.py <name> <property> <file under /repo> <needs> : reads OLD and NEW from files /tmp/mm_old /tmp/mm_new
Creates /verif/mutants/<name>/{patch.diff,meta.json} (a canary written by us, not by a sub-agent)."""
import json, os, subprocess, sys, tempfile, shutil
name, prop, rel, needs = sys.argv[1:5]
old = open('/tmp/mm_old').read(); new = open('/tmp/mm_new').read()
src = open(os.path.join('/repo', rel)).read()
assert src.count(old) >= 1, 'old text not found'
cnt = int(os.environ.get('MM_NTH', '1'))
idx = -1
for _ in range(cnt):
    idx = src.index(old, idx + 1)
mut = src[:idx] + new + src[idx + len(old):]
d = tempfile.mkdtemp(dir='/var/tmp')
os.makedirs(os.path.join(d, 'a', os.path.dirname(rel))); os.makedirs(os.path.join(d, 'b', os.path.dirname(rel)))
open(os.path.join(d, 'a', rel), 'w').write(src); open(os.path.join(d, 'b', rel), 'w').write(mut)
p = subprocess.run(['diff', '-u', os.path.join('a', rel), os.path.join('b', rel)], cwd=d, capture_output=True, text=True)
out = os.path.join('/verif/mutants', name); os.makedirs(out, exist_ok=True)
open(os.path.join(out, 'patch.diff'), 'w').write(p.stdout)
json.dump({'property': prop, 'origin': 'canary written with the check (not independent)', 'needs': needs}, open(os.path.join(out, 'meta.json'), 'w'), indent=1)
shutil.rmtree(d); print(p.stdout)
