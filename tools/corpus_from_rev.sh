#!/bin/bash
# corpus_from_rev.sh <rev> <PID> <name-prefix> [runs]: run the quick search against /repo's rdflib as of <rev> (e.g. the parent of a fix:
# commit) in a scratch copy and store the minimised replays as regression corpus entries (expect: pass on the current tree).
set -e
rev=$1; pid=$2; name=$3; runs=${4:-1500}
d=$(mktemp -d -p /var/tmp verif-scratch-XXXX)
git -C /repo archive "$rev" rdflib | tar -x -C "$d"
cd /verif
rm -f replays/$pid-*.json
VERIF_REPO=$d VERIF_NO_CORPUS=1 VERIF_EVIDENCE_DIR=$d/ev ./check $pid --runs $runs | grep -E "^(violation|VIOLATION)" || true
mkdir -p corpus/$pid
i=0
for f in replays/$pid-*.json; do
  case $f in *-raw.json) continue;; esac
  [ -f "$f" ] || continue
  i=$((i+1))
  /venv/bin/python - "$f" "corpus/$pid/$name-$i.json" "$rev" <<'PY'
import json, sys
t = json.load(open(sys.argv[1])); t['expect'] = 'pass'; t['note'] = f"found on rdflib as of {sys.argv[3]}; oracle {t['violation']['oracle']}"
json.dump(t, open(sys.argv[2], 'w'), indent=1)
PY
  echo "corpus/$pid/$name-$i.json <- $(jq -r .violation.oracle $f)"
done
rm -rf "$d"
