#!/usr/bin/env python3
"""Regenerates the machine-made tables at the end of DESIGN.md (between the GENERATED markers) from known_findings.json,
seeded/*/meta.json, mutants/*/meta.json and the last sensitivity log (tools/sensitivity.log, if present)."""
import glob, json, os, re
V = '/verif'
kf = json.load(open(f'{V}/known_findings.json'))['findings']
out = []
out.append('### 11.1 Genuine defects repaired in /repo (one `fix:` commit each; a fixed entry suppresses nothing)\n')
out.append('| property | commit | what failed | regression corpus / reverse-patch mutant |')
out.append('|---|---|---|---|')
for f in kf:
    if f['status'] != 'fixed':
        continue
    c = f['commit']
    mut = [os.path.basename(d) for d in glob.glob(f'{V}/mutants/*') if c[:8] in d or (c.startswith('3f5ef477') and d.endswith('c18-revert-fix'))]
    out.append(f"| {f['property']} | `{c}` | {f['what']} | `{f.get('corpus','')}`; {', '.join('`'+m+'`' for m in mut) or '-'} |")
out.append('\n### 11.2 Known findings (genuine defects recorded, not repaired) - matched by channel + predicate, see §6\n')
out.append('| property | id | channel | what | why not repaired |')
out.append('|---|---|---|---|---|')
for f in kf:
    if f['status'] != 'known':
        continue
    out.append(f"| {f['property']} | `{f['id']}` | `{f['channel']}` | {f['what']} | {f.get('why_not_fixed','')} |")
caught = {}
log = f'{V}/tools/sensitivity.log'
if os.path.exists(log):
    for line in open(log):
        m = re.match(r'sensitivity (\S+): (caught by (\S+)|NOT caught|patch does not apply|harmless since fix \S+)', line)
        if m:
            caught[m.group(1)] = (m.group(3) or m.group(2)).rstrip(':')
out.append('\n### 12.1 Changes written by independent sub-agents (`seeded/`), each confirmed: demo passes on the clean tree and fails with the patch, full suite still passes\n')
out.append('| id | property | what was changed | what it needs to manifest | caught by (quick tier, corpus off) |')
out.append('|---|---|---|---|---|')
for d in sorted(glob.glob(f'{V}/seeded/*')):
    m = json.load(open(d + '/meta.json'))
    n = os.path.basename(d)
    res = caught.get(n, '?') if not m.get('moot_since') else f"harmless since fix {m['moot_since']} (not run)"
    out.append(f"| `{n}` | {m['property']} | {str(m.get('what_changed') or m.get('title',''))[:260]} | {str(m.get('needs_to_manifest',''))[:260]} | {res} |")
out.append('\n### 12.2 Own canaries and reverse-fix patches (`mutants/`; written with the checks, hence not independent evidence)\n')
out.append('| id | property | needs | caught by |')
out.append('|---|---|---|---|')
for d in sorted(glob.glob(f'{V}/mutants/*')):
    m = json.load(open(d + '/meta.json'))
    n = os.path.basename(d)
    out.append(f"| `{n}` | {m['property']} | {str(m.get('needs',''))[:200]} | {caught.get(n, '?')} |")
text = '\n'.join(out) + '\n'
p = f'{V}/DESIGN.md'
s = open(p).read()
a, b = '<!-- GENERATED:BEGIN -->', '<!-- GENERATED:END -->'
if a in s:
    s = s[:s.index(a) + len(a)] + '\n' + text + s[s.index(b):]
else:
    s += f'\n{a}\n{text}{b}\n'
open(p, 'w').write(s)
print('tables regenerated:', len(out), 'lines')
