#!/bin/bash
# reverify_demos.sh [names..]: for every seeded/<name>: demo.py on a scratch copy of /repo's current rdflib must exit 0, with patch.diff applied must
# exit non-zero.  Reports the ones for which that no longer holds (after later fix: commits a seeded change can become moot).
cd /verif
names=${@:-$(ls seeded)}
bad=0
for n in $names; do
  d=seeded/$n; [ -f $d/demo.py ] || continue
  grep -q '"moot_since"' $d/meta.json && continue
  sc=$(mktemp -d -p /var/tmp verif-scratch-XXXX)
  cp -r /repo/rdflib $sc/rdflib; find $sc -name __pycache__ -prune -exec rm -rf {} +
  ( cd $sc && timeout 300 /venv/bin/python /verif/$d/demo.py >$sc/d0 2>&1 ); r0=$?
  if ! ( cd / && git apply --unsafe-paths --directory $sc /verif/$d/patch.diff 2>/dev/null ); then echo "$n: PATCH-DOES-NOT-APPLY"; bad=$((bad+1)); rm -rf $sc; continue; fi
  ( cd $sc && timeout 300 /venv/bin/python /verif/$d/demo.py >$sc/d1 2>&1 ); r1=$?
  if [ $r0 -ne 0 ] || [ $r1 -eq 0 ]; then echo "$n: clean=$r0 patched=$r1 ($(tail -1 $sc/d0 | cut -c1-80) / $(tail -1 $sc/d1 | cut -c1-80))"; bad=$((bad+1)); fi
  rm -rf $sc
done
echo "reverify: $bad of $(echo $names | wc -w) not confirmed"
