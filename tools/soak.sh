#!/bin/bash
# soak.sh <first seed> <last seed> [runs] [props...]: run quick-tier checks under many VERIF_SEED values; report every non-zero exit.
a=$1; b=$2; runs=${3:-2000}; shift 3 2>/dev/null
props=${@:-C01 C02 C05 C10 C12 C13 C15 C17 C18 C19 C20}
export VERIF_EVIDENCE_DIR=${VERIF_EVIDENCE_DIR:-/var/tmp/verif-soak-evidence}
mkdir -p $VERIF_EVIDENCE_DIR
bad=0
for s in $(seq $a $b); do
  for p in $props; do
    out=$(VERIF_SEED=$s ./check $p --runs $runs 2>&1); rc=$?
    if [ $rc -ne 0 ]; then bad=$((bad+1)); echo "SEED $s $p rc=$rc"; echo "$out" | grep -E "^(violation|VIOLATION|HARNESS)" | cut -c1-600; fi
  done
  echo "seed $s done (bad so far: $bad)"
done
echo "soak finished: $bad non-zero exits"
