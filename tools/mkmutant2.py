#!/usr/bin/env python3
"""mkmutant2.py <name> <property> <needs> < json [[file, old, new], ...] : multi-replacement canary against /repo HEAD"""
import json, os, subprocess, sys, tempfile, shutil
name, prop, needs = sys.argv[1:4]
pairs = json.load(sys.stdin)
d = tempfile.mkdtemp(dir='/var/tmp')
files = {}
for rel, old, new in pairs:
    src = files.get(rel) or open(os.path.join('/repo', rel)).read()
    assert src.count(old) == 1, (rel, old[:50], src.count(old))
    files[rel] = src.replace(old, new)
out = os.path.join('/verif/mutants', name); os.makedirs(out, exist_ok=True)
diff = ''
for rel, mut in files.items():
    for side, text in (('a', open(os.path.join('/repo', rel)).read()), ('b', mut)):
        os.makedirs(os.path.join(d, side, os.path.dirname(rel)), exist_ok=True)
        open(os.path.join(d, side, rel), 'w').write(text)
    diff += subprocess.run(['diff', '-u', os.path.join('a', rel), os.path.join('b', rel)], cwd=d, capture_output=True, text=True).stdout
open(os.path.join(out, 'patch.diff'), 'w').write(diff)
json.dump({'property': prop, 'origin': 'canary written with the check (semantic reverse of a fix or a planned canary; not independent)', 'needs': needs}, open(os.path.join(out, 'meta.json'), 'w'), indent=1)
shutil.rmtree(d); print('made', name)
