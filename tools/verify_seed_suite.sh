#!/bin/bash
# verify_seed_suite.sh <seed dir> : apply patch.diff in a scratch git worktree of /repo HEAD (outside /repo and /verif), run the full test suite,
# compare failures with the stable baseline; writes <seed dir>/suite_result.txt; removes the worktree.
d=$1; name=$(basename $(dirname $d))-$(basename $d)
wt=/var/tmp/verif-wt-$name
git -C /repo worktree remove --force $wt 2>/dev/null; rm -rf $wt
git -C /repo worktree add -q --detach $wt HEAD || exit 2
cd $wt && git apply $d/patch.diff || { echo "patch does not apply" > $d/suite_result.txt; git -C /repo worktree remove --force $wt; exit 3; }
/venv/bin/python -m pytest -q -p no:cacheprovider --timeout=900 --continue-on-collection-errors --junitxml=$wt/junit.xml > $wt/log 2>&1
/venv/bin/python - $wt/junit.xml > $d/suite_result.txt <<'PY'
import json, sys
import xml.etree.ElementTree as ET
want = set(json.load(open('/root/.vp/BASELINE.json'))['stable_pass'])
bad = []
for tc in ET.parse(sys.argv[1]).getroot().iter('testcase'):
    if any(ch.tag in ('failure', 'error') for ch in tc):
        tid = f"{tc.get('classname')}::{tc.get('name')}"
        if tid in want:
            bad.append(tid)
print("rdflib HEAD:", end=' '); import subprocess; print(subprocess.run(['git','-C','/repo','rev-parse','--short','HEAD'],capture_output=True,text=True).stdout.strip())
print(f"stable tests failing with the patch: {len(bad)}")
for b in bad[:30]: print("  ", b)
PY
tail -1 $wt/log >> $d/suite_result.txt
cd /; git -C /repo worktree remove --force $wt
cat $d/suite_result.txt
