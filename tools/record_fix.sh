#!/bin/bash
# record_fix.sh <commit> <PID> [runs]: for a "fix:" commit in /repo: (1) reverse patch as a sensitivity mutant, (2) corpus traces found on the
# parent revision, (3) a "fixed" entry in known_findings.json
set -e
c=$(git -C /repo rev-parse --short=8 $1); pid=$2; runs=${3:-2000}
lc=$(echo $pid | tr A-Z a-z)
n=$lc-revert-$c; mkdir -p /verif/mutants/$n
git -C /repo diff $c $c~1 -- rdflib > /verif/mutants/$n/patch.diff
subj=$(git -C /repo log --format=%s -1 $c | sed 's/"/'"'"'/g')
/venv/bin/python -c 'import json,sys; json.dump({"property":sys.argv[1],"origin":"reverse of fix: commit "+sys.argv[2],"needs":sys.argv[3]},open(sys.argv[4],"w"))' "$pid" "$c" "$subj" /verif/mutants/$n/meta.json
/verif/tools/corpus_from_rev.sh $c~1 $pid fix-$c $runs
/venv/bin/python - "$c" "$pid" "$subj" <<'PY'
import json, sys
c, pid, subj = sys.argv[1:4]
kf = json.load(open('/verif/known_findings.json'))
if not any(f.get('commit') == c for f in kf['findings']):
    kf['findings'].append({"status": "fixed", "property": pid, "commit": c, "what": subj[5:] if subj.startswith('fix: ') else subj, "corpus": f"corpus/{pid}/fix-{c}-*.json"})
json.dump(kf, open('/verif/known_findings.json', 'w'), indent=1)
PY
