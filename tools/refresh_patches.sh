#!/bin/bash
# refresh_patches.sh: re-diff seeded/ and mutants/ patches that only apply with fuzz, so that `git -C /repo apply` accepts them
cd /repo
for d in /verif/seeded/* /verif/mutants/*; do
  p=$d/patch.diff
  git apply --check $p 2>/dev/null && continue
  sc=$(mktemp -d -p /var/tmp verif-scratch-XXXX)
  mkdir -p $sc/a $sc/b; cp -r /repo/rdflib $sc/a/; cp -r /repo/rdflib $sc/b/
  if (cd $sc/b && patch -p1 -s < $p) >/dev/null 2>&1; then
    find $sc -name "*.orig" -delete; find $sc -name __pycache__ -prune -exec rm -rf {} +
    (cd $sc && diff -ruN a/rdflib b/rdflib | grep -v "^diff -ruN" > $sc/new.diff)
    if git apply --check $sc/new.diff 2>/dev/null; then cp $sc/new.diff $p; echo "refreshed $(basename $d)"; else echo "STILL-BROKEN $(basename $d)"; fi
  else
    echo "DOES-NOT-APPLY $(basename $d)"
  fi
  rm -rf $sc
done
