#!/bin/bash
# Runs the repository's stable baseline with the verification guard OFF (no hooks exist; RDFLIB_VERIF unset)
# and compares with /root/.vp/BASELINE.json: every stable_pass test must still pass.
set -u
unset RDFLIB_VERIF
OUT=$(mktemp -d -p /var/tmp verif-baseline-XXXX)
cd /repo && /venv/bin/python -m pytest -ra -q -p no:cacheprovider --timeout=900 --continue-on-collection-errors --junitxml=$OUT/junit.xml > $OUT/log 2>&1
/venv/bin/python - "$OUT/junit.xml" <<'PY'
import json, sys
import xml.etree.ElementTree as ET
base = json.load(open('/root/.vp/BASELINE.json'))
want = set(base['stable_pass'])
ok = set()
for tc in ET.parse(sys.argv[1]).getroot().iter('testcase'):
    # failures and errors count; xfail (reported as skipped) does not: test_swap_n3 ids are assigned in hash order and shuffle between runs
    bad = any(ch.tag in ('failure', 'error') or (ch.tag == 'skipped' and ch.get('type') != 'pytest.xfail') for ch in tc)
    if not bad:
        ok.add(f"{tc.get('classname')}::{tc.get('name')}")
missing = sorted(want - ok)
print(f"stable_pass={len(want)} passing_now={len(ok)} missing={len(missing)}")
for m in missing[:40]:
    print("NOT PASSING:", m)
sys.exit(1 if missing else 0)
PY
rc=$?
rm -rf "$OUT"
exit $rc
