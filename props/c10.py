"""C10 - SPARQL Update against persistent state (history/configuration part).

A client session: 1-5 update requests (1-3 operations each) applied to one evolving store through a randomly chosen
handle (Graph, named Graph view, ConjunctiveGraph, Dataset) with the default-graph-is-union switch on or off; the
dataset is observed after every request through an independent traversal of the store.
Oracle: reference SPARQL-Update transformer (sim.sparqlref) over dict name -> set.
"""
from __future__ import annotations

import copy

from sim import iso, sparqlref as R
from sim import kernel
from sim.kernel import KnownStop
from sim.rng import Stream
from sim.terms import EX, XSD, T, key, u

ID = "C10"
LEVEL = "exploration"
TIERS = {"quick": {"runs": 6400, "wall_cap": 600}, "thorough": {"runs": 100000, "wall_cap": 3300}}
RULE = (
    "each evaluation is one seeded client session of 1-5 update requests (1-3 operations each: INSERT DATA, DELETE DATA, DELETE WHERE, "
    "DELETE/INSERT/both ... WHERE with WITH / USING / USING NAMED / GRAPH <g> / GRAPH ?g in templates and pattern, CLEAR/DROP "
    "DEFAULT|NAMED|ALL|GRAPH [SILENT], ADD/MOVE/COPY incl. source = target and missing graphs; templates whose deletions and insertions of "
    "different solutions overlap, unbound variables, literals in illegal positions, blank nodes; written with full IRIs, with a prefix the handle's bindings supply, with a PREFIX or BASE declared once before the first operation while the handle binds the prefix otherwise, or issued with initBindings incl. falsy terms) applied to one evolving Memory store "
    "through a Graph, a named Graph view, a ConjunctiveGraph or a Dataset handle with SPARQL_DEFAULT_GRAPH_UNION on or off; after every "
    "request all quads of the store are compared (up to a bijection on blank nodes created by the request) with a reference transformer "
    "implementing SPARQL 1.1 Update section 3 over dict name -> set with its own bottom-up WHERE evaluator; distinct = distinct trace "
    "digest; non-trivial = at least 2 requests changed the model and at least one DELETE/INSERT..WHERE had >=2 solutions"
)
REAL = ["rdflib.plugins.sparql (parser, algebra.translateUpdate, update.eval*, evaluate, evalutils._fillTemplate)", "rdflib.graph Graph/ConjunctiveGraph/Dataset.update", "Memory store"]
STUB = ["uuid4 seeded"]
ASSUMPTIONS = [
    "with the union switch on, Dataset handles are built with default_union=True (the statement says the switch decides what WHERE sees; a Dataset(default_union=False) under the switch is not generated)",
    "WHERE patterns are restricted to the fragment the reference evaluator covers (BGP, GRAPH, UNION, OPTIONAL+FILTER, FILTER =/!=/bound, BIND of a term, VALUES); data literals are simple strings so that = is term equality",
    "only quads are compared, not which empty graphs the store remembers",
    "ADD/MOVE/COPY from a missing graph may act on an empty source or fail leaving the state before that operation",
]
PROBES = ["overlapping-delete-insert-across-solutions", "template-unbound-var", "template-illegal-literal", "template-bnode-multi-solution", "with-clause", "using-clause", "graph-var-in-template", "move-src-eq-dst", "missing-source-graph", "request-multi-op", "where-2+solutions", "default-and-named-share-triple", "union-on", "union-off", "prefix-from-graph-bindings", "base-before-first-operation"]
KNOWN_PREDICATES = {
    "C10-using-does-not-restrict-named-graphs": lambda f: f.get("equals_using_named_ignored") is True,
    "C10-delete-where-graph-var-noop": lambda f: f.get("equals_delete_where_graphvar_noop") is True,
}

G = [u("g1"), u("g2"), u("g3")]
V = lambda n: ["v", n]  # noqa: E731


def _srt(xs):
    return sorted(xs, key=repr)


def warm():
    import rdflib  # noqa
    import rdflib.plugins.sparql  # noqa
    import rdflib.plugins.sparql.update  # noqa
    from rdflib.plugins.sparql.processor import prepareUpdate  # noqa

    prepareUpdate("INSERT DATA { <urn:a> <urn:b> <urn:c> }")


SUBS = [u("s1"), u("s2"), ["b", "pb"]]
PREDS = [u("p"), u("q")]
OBJS = [u("s1"), u("s2"), u("o1"), ["l", "a", None, None], ["l", "", None, None], ["b", "pb"]]


def _tri(g):
    return [g.pick(SUBS), g.pick(PREDS), g.pick(OBJS)]


def _pattern(g, dataset, depth=0):
    """returns (pattern, vars) - vars that may be bound"""
    k = g.weighted([("bgp", 5), ("graph", 3 if dataset else 0), ("union", 2), ("optional", 2), ("filter", 2), ("bind", 1), ("values", 1)]) if depth < 2 else "bgp"
    if k == "bgp":
        shape = g.choice(["spo", "s-p-o", "chain", "const-o", "sym", "pvar"])
        if shape == "spo" or shape == "sym":
            return {"t": "bgp", "triples": [[V("s"), g.pick(PREDS), V("o")]]}, ["s", "o"]
        if shape == "s-p-o":
            return {"t": "bgp", "triples": [[g.pick(SUBS[:2]), g.pick(PREDS), V("o")]]}, ["o"]
        if shape == "chain":
            return {"t": "bgp", "triples": [[V("s"), g.pick(PREDS), V("o")], [V("o"), g.pick(PREDS), V("x")]]}, ["s", "o", "x"]
        if shape == "const-o":
            return {"t": "bgp", "triples": [[V("s"), g.pick(PREDS), g.pick(OBJS[:5])]]}, ["s"]
        return {"t": "bgp", "triples": [[V("s"), V("pp"), V("o")]]}, ["s", "pp", "o"]
    if k == "graph":
        sub, vs = _pattern(g, dataset, depth + 1)
        if g.chance(0.35):
            # an OPTIONAL (or a second pattern) evaluated inside the GRAPH scope after the first solution was produced
            sub = {"t": "optional", "a": {"t": "bgp", "triples": [[V("s"), g.pick(PREDS), V("o")]]}, "b": {"t": "bgp", "triples": [[V(g.choice(["s", "o"])), g.pick(PREDS), V("opt")]]}, "filter": None}
            vs = ["s", "o", "opt"]
        if sub["t"] == "graph":
            sub = {"t": "bgp", "triples": [[V("s"), g.pick(PREDS), V("o")]]}
            vs = ["s", "o"]
        if g.chance(0.5):
            return {"t": "graph", "g": V("g"), "p": sub}, vs + ["g"]
        return {"t": "graph", "g": g.pick(G), "p": sub}, vs
    if k == "union":
        a, va = _pattern(g, dataset, depth + 1)
        b, vb = _pattern(g, dataset, depth + 1)
        return {"t": "union", "a": a, "b": b}, sorted(set(va) | set(vb))
    if k == "optional":
        a, va = _pattern(g, dataset, depth + 1)
        b = {"t": "bgp", "triples": [[V(g.choice(va)), g.pick(PREDS), V("opt")]]}
        f = ["!=", V("opt"), g.pick(OBJS[:4])] if g.chance(0.4) else None
        return {"t": "optional", "a": a, "b": b, "filter": f}, va + ["opt"]
    if k == "filter":
        a, va = _pattern(g, dataset, depth + 1)
        e = g.choice([["=", V(g.choice(va)), g.pick(OBJS[:4])], ["!=", V(g.choice(va)), g.pick(OBJS[:4])], ["bound", g.choice(va)], ["!bound", g.choice(va + ["nope"])]])
        return {"t": "filter", "p": a, "e": e}, va
    if k == "bind":
        a, va = _pattern(g, dataset, depth + 1)
        # the variable introduced by BIND must be new in its group: one name per nesting depth
        return {"t": "bind", "p": a, "var": f"bv{depth}", "e": g.choice([g.pick(OBJS[:4]), V(g.choice(va))])}, va + [f"bv{depth}"]
    a, va = _pattern(g, dataset, depth + 1)
    return {"t": "values", "var": g.choice([v for v in va if not v.startswith("bv")] + ["vv"]), "vals": [g.choice(OBJS[:4] + [None]) for _ in range(g.randint(1, 3))], "p": a}, va + ["vv"]


def _template(g, vars_, dataset, insert):
    def term(pos):
        r = g.random()
        if r < 0.55 and vars_:
            return V(g.choice(vars_))
        if r < 0.62:
            return V("unbound")
        if r < 0.70 and insert and pos != 1:
            return ["b", g.choice(["n1", "n2"])]
        return g.pick(SUBS[:2]) if pos == 0 else g.pick(PREDS) if pos == 1 else g.pick(OBJS[:5])

    def tri():
        t = [term(0), term(1), term(2)]
        if t[1][0] == "v" and g.chance(0.7):
            t[1] = g.pick(PREDS)
        return t

    tpl = {"triples": [tri() for _ in range(g.randint(0, 2))], "graphs": []}
    if dataset and g.chance(0.5):
        gt = V("g") if "g" in vars_ and g.chance(0.6) else g.pick(G)
        tpl["graphs"].append([gt, [tri() for _ in range(g.randint(1, 2))]])
        if g.chance(0.4):
            # several GRAPH blocks; the name of an earlier one may be unbound or a literal for some solutions (that block is
            # skipped for them, the later ones are not), or the same name may come twice
            early = g.choice([V("unbound"), V(g.choice(vars_)) if vars_ else V("unbound"), g.pick(G), gt])
            tpl["graphs"].insert(0, [early, [tri()]])
            if g.chance(0.3):
                tpl["graphs"].append([g.pick(G), [tri()]])
    if not tpl["triples"] and not tpl["graphs"]:
        tpl["triples"].append(tri())
    return tpl


def _data(g, dataset, insert):
    def tri():
        t = _tri(g)
        if not insert:
            t = [x if x[0] != "b" else u("s1") for x in t]  # no blank nodes in DELETE DATA
        elif g.chance(0.3):
            t[2] = ["b", "d1"]
        return t

    d = {"triples": [tri() for _ in range(g.randint(0, 3))], "graphs": []}
    if dataset and g.chance(0.6):
        d["graphs"].append([g.pick(G), [tri() for _ in range(g.randint(1, 2))]])
        if g.chance(0.3):
            d["graphs"].append([g.pick(G), [tri()]])
    if not d["triples"] and not d["graphs"]:
        d["triples"].append(tri())
    return d


def _op(g, dataset):
    k = g.weighted([("insert-data", 3), ("delete-data", 2), ("delete-where", 2), ("modify", 7), ("mgmt", 3 if dataset else 0), ("xfer", 3 if dataset else 0), ("mgmt1", 0 if dataset else 1.5)])
    if k == "mgmt1":
        # through a single graph: CLEAR / DROP of the one graph there is
        # (ALL is that graph too, NAMED is nothing: a single graph is a graph store with a default graph only)
        return {"op": g.choice(["clear", "drop"]), "g": g.choice(["DEFAULT", "DEFAULT", "ALL", "NAMED"]), "silent": g.chance(0.3)}
    if k == "insert-data":
        return {"op": k, "data": _data(g, dataset, True)}
    if k == "delete-data":
        return {"op": k, "data": _data(g, dataset, False)}
    if k == "delete-where":
        tpl = {"triples": [[V("s"), g.pick(PREDS), V("o")]] if g.chance(0.7) else [], "graphs": []}
        if tpl["triples"] and g.chance(0.4):
            tpl["triples"].append([V("s"), g.pick(PREDS), V("z")])  # a second pattern: several solutions share triples to delete
        if dataset and g.chance(0.5):
            # GRAPH ?g in DELETE WHERE is a listed known finding (it ends the run): rare
            tpl["graphs"].append([V("g") if g.chance(0.12) else g.pick(G), [[V("s"), g.pick(PREDS), V("o2")]]])
        if not tpl["triples"] and not tpl["graphs"]:
            tpl["triples"].append([V("s"), V("p"), g.pick(OBJS[:5])])
        return {"op": k, "data": tpl}
    if k == "modify":
        where, vars_ = _pattern(g, dataset)
        op = {"op": "modify", "where": where}
        mode = g.choice(["delete", "insert", "both", "both", "swap"])
        if mode == "swap":
            p = g.pick(PREDS)
            op["where"] = {"t": "bgp", "triples": [[V("s"), p, V("o")]]}
            op["delete"] = {"triples": [[V("s"), p, V("o")]], "graphs": []}
            op["insert"] = {"triples": [[V("o"), p, V("s")]], "graphs": []}
        else:
            if mode in ("delete", "both"):
                op["delete"] = _template(g, vars_, dataset, False)
            if mode in ("insert", "both"):
                op["insert"] = _template(g, vars_, dataset, True)
        if dataset:
            if g.chance(0.3):
                op["with"] = g.pick(G)
            if g.chance(0.25):
                op["using"] = [g.pick(G) for _ in range(g.randint(1, 2))]
            if g.chance(0.15):
                op["using_named"] = [g.pick(G)]
        return op
    DI = ["u", "urn:x-rdflib:default"]  # the default graph addressed by its own IRI instead of the DEFAULT keyword
    if k == "mgmt":
        return {"op": g.choice(["clear", "drop"]), "g": g.choice(["DEFAULT", "NAMED", "ALL", DI] + G * 2), "silent": g.chance(0.4)}
    return {"op": g.choice(["add", "move", "copy"]), "src": g.choice(["DEFAULT", DI] + G), "dst": g.choice(["DEFAULT", DI] + G), "silent": g.chance(0.3)}


def generate(seed, tier):
    g = Stream(seed, "gen")
    union = g.chance(0.6)
    handles = ["graph", "view", "cg", "cg-anon", "ds"] if union else ["graph", "view", "cg", "ds", "ds-T"]
    init = []
    for _ in range(g.randint(0, 8)):
        init.append(_tri(g) + [g.choice([None, None, 0, 1])])
    if g.chance(0.4) and init:  # symmetric data, for overlapping delete/insert
        s, p, o, gi = init[0]
        if o[0] != "l":
            init.append([o, p, s, gi])
    requests = []
    last_prefixed = None
    for i in range(g.randint(1, 5)):
        h = g.choice(handles)
        dataset = h not in ("graph", "view")
        ops = [_op(g, dataset) for _ in range(g.choice([1, 1, 2, 3]))]
        if g.chance(0.04):
            ops = []  # a request with no operation at all (legal): nothing happens
        if len(ops) > 1 or g.chance(0.7):
            # USING NAMED, and USING together with a GRAPH pattern, are a listed known finding (it ends the run): only in
            # single-operation requests, and rarely
            for o in ops:
                o.pop("using_named", None)
                if o.get("using") and _has_graph(o["where"]):
                    del o["using"]
        req = {"uid": i + 1, "k": "request", "handle": h, "ops": ops}
        r = g.random()
        if r < 0.25:
            # names written with the prefix ex:, which the text does not declare: the handle's namespace bindings supply it,
            # and they differ from request to request
            req["prefixed"] = g.choice(["http://ex.org/", "http://other.example/ns#", "http://ex.org/"])
            if last_prefixed and g.chance(0.6):
                # the very same request text as before, now under the other binding of ex:
                req["ops"] = copy.deepcopy(last_prefixed[0])
                req["handle"] = last_prefixed[2] if g.chance(0.5) else req["handle"]
                req["prefixed"] = "http://other.example/ns#" if last_prefixed[1] == "http://ex.org/" else "http://ex.org/"
                if req["handle"] in ("graph", "view"):
                    req["ops"] = [o for o in req["ops"] if o["op"] in ("insert-data", "delete-data", "delete-where", "modify")]
            last_prefixed = (req["ops"], req["prefixed"], req["handle"])
        elif r < 0.35:
            req["base"] = True  # BASE once, before the first operation; relative IRIs in every operation
        elif r < 0.45:
            # the text declares PREFIX ex: itself (once, before the first operation) while the handle binds ex: to another
            # namespace: the declaration of the request holds for every operation of the request
            req["declared"] = True
        elif r < 0.6 and len(ops) == 1 and ops[0]["op"] == "modify":
            v = _leading_var(ops[0]["where"], g)
            if v and not _rebinds(ops[0]["where"], v):
                # initBindings: the WHERE clause is evaluated with that variable already bound (= joined with that one row)
                req["initb"] = [v, g.choice([_tri(g)[0], _tri(g)[2], _tri(g)[2], ["l", "", None, None], ["l", "0", None, XSD + "integer"], ["l", "false", None, XSD + "boolean"]])]
        requests.append(req)
    return {"property": ID, "config": {"union": union, "init": init, "subscriber": g.chance(0.15), "graph_subclass": g.chance(0.3)}, "ops": requests}


def _leading_var(p, g):
    """a variable of the basic graph pattern that the WHERE clause starts with (reached without entering a UNION branch,
    the right side of an OPTIONAL or a sub-group that is joined in later)"""
    while p["t"] != "bgp":
        if p["t"] in ("join", "optional"):
            p = p["a"]
        elif p["t"] in ("filter", "bind", "values", "graph"):
            p = p["p"]
        else:
            return None
    vs = sorted({x[1] for tr in p["triples"] for x in (tr[0], tr[2]) if x[0] == "v"})
    return g.choice(vs) if vs else None


def _rebinds(p, v):
    if isinstance(p, dict):
        if p.get("t") in ("bind", "values") and p.get("var") == v:
            return True
        if p.get("t") == "graph" and p["g"] == ["v", v]:
            return True
        return any(_rebinds(x, v) for x in p.values())
    if isinstance(p, list):
        return any(_rebinds(x, v) for x in p)
    return False


def nontrivial(trace, res):
    p = res.get("probes", {})
    return p.get("request-changed-model", 0) >= 2 and p.get("where-2+solutions", 0) >= 1


def _vars_in(tpl):
    return {x[1] for ts in [tpl.get("triples", [])] + [t for _, t in tpl.get("graphs", [])] for tr in ts for x in tr if x[0] == "v"}


def observe(store):
    out = set()
    for c in list(store.contexts()):
        ck = key(c.identifier)
        for (s, p, o), _ in store.triples((None, None, None), c):
            out.add((key(s), key(p), key(o), ck))
    return out


def execute(trace, ctx):
    import warnings

    import rdflib.plugins.sparql as sparql_mod
    from rdflib import ConjunctiveGraph, Dataset, Graph, Variable
    from rdflib.graph import DATASET_DEFAULT_GRAPH_ID
    from rdflib.plugins.stores.memory import Memory
    from rdflib.term import URIRef

    warnings.simplefilter("ignore")
    cfg = trace["config"]
    union = cfg["union"]
    sparql_mod.SPARQL_DEFAULT_GRAPH_UNION = union
    sparql_mod.SPARQL_LOAD_GRAPHS = False  # USING <g> / USING NAMED <g> name graphs of the graph store, nothing is fetched
    ctx.probe("union-on" if union else "union-off")
    store = Memory()
    if trace["config"].get("subscriber"):
        kernel.counting_subscriber(store, ctx)
    DEFK = ("u", str(DATASET_DEFAULT_GRAPH_ID))
    model = {R.DEFAULT: set()}
    for s, p, o, gi in cfg["init"]:
        gid = DATASET_DEFAULT_GRAPH_ID if gi is None else T(G[gi])
        Graph(store, gid).add((T(s), T(p), T(o)))
        model.setdefault(R.DEFAULT if gi is None else R.skey(G[gi]), set()).add((R.skey(s), R.skey(p), R.skey(o)))
    class _AppGraph(Graph):
        pass

    anon_cg = ConjunctiveGraph(store)  # its default context is a blank-node-named graph of its own
    fresh = R.Fresh()

    def handle(h):
        """returns (graph object to call update() on, key of the graph that plays the default graph, single_graph?)"""
        if h == "graph":
            if trace["config"].get("graph_subclass"):
                # a Graph subclass of the application's own is a single graph like any other
                ctx.probe("graph-subclass-handle")
                return _AppGraph(store, DATASET_DEFAULT_GRAPH_ID), DEFK, True
            return Graph(store, DATASET_DEFAULT_GRAPH_ID), DEFK, True
        if h == "view":
            return Graph(store, T(G[0])), R.skey(G[0]), True
        if h == "cg":
            return ConjunctiveGraph(store, identifier=DATASET_DEFAULT_GRAPH_ID), DEFK, False
        if h == "cg-anon":
            return anon_cg, key(anon_cg.default_context.identifier), False
        return Dataset(store, default_union=(h == "ds-T") or union), DEFK, False

    def model_view(h, defkey):
        """the model as this handle sees it: which graph is 'the default graph'"""
        m = {}
        for gk, ts in model.items():
            real = DEFK if gk == R.DEFAULT else gk
            m[R.DEFAULT if real == defkey else real] = ts
        m.setdefault(R.DEFAULT, set())
        return m

    def store_back(m, defkey):
        model.clear()
        for gk, ts in m.items():
            real = defkey if gk == R.DEFAULT else gk
            model[R.DEFAULT if real == DEFK else real] = ts
        model.setdefault(R.DEFAULT, set())

    def model_quads():
        return {t + ((DEFK if g == R.DEFAULT else g),) for g, ts in model.items() for t in ts}

    def compare(where, pre_bnodes, alt_known=None, alt2_known=None):
        got = observe(store)
        exp = model_quads()
        fx = frozenset(pre_bnodes)
        ctx.checks += 1
        if iso.find_embedding(exp, got, fixed=fx, onto=True, forbidden_images=fx) is not None:
            return "ok"
        return ctx.deviation(
            "C10.dataset-differs",
            f"{where}: dataset after the request differs from the reference transformer:\n only-reference={_srt(exp - got)}\n only-rdflib={_srt(got - exp)}",
            only_ref=_srt(exp - got),
            only_got=_srt(got - exp),
            # the result is exactly what the reference gives when USING NAMED clauses are ignored
            equals_using_named_ignored=alt_known is not None and iso.find_embedding(alt_known, got, fixed=fx, onto=True, forbidden_images=fx) is not None,
            # the result is exactly what the reference gives when DELETE WHERE operations with GRAPH ?var delete nothing
            equals_delete_where_graphvar_noop=alt2_known is not None and iso.find_embedding(alt2_known, got, fixed=fx, onto=True, forbidden_images=fx) is not None,
        )

    compare("initial", set())
    for req in trace["ops"]:
        if sum(len(ts) for ts in model.values()) > 400:
            ctx.probe("dataset-size-cap")  # (requests that multiply the data: the run ends here, runs are bounded)
            break
        h = req["handle"]
        g, defkey, single = handle(h)
        if h == "cg-anon" and not union:
            continue
        ops = req["ops"]
        if single:
            # through a single graph: what needs no dataset, plus CLEAR / DROP of the one graph there is (DEFAULT, ALL) or of nothing (NAMED)
            ops = [o for o in ops if (o["op"] in ("insert-data", "delete-data", "delete-where", "modify") and not _uses_dataset(o)) or (o["op"] in ("clear", "drop") and o["g"] in ("DEFAULT", "ALL", "NAMED"))]
            if not ops:
                continue
        if req.get("prefixed"):
            ns = req["prefixed"]
            g.bind("ex", URIRef(ns), override=True, replace=True)
            text = R.r_request(ops, prefixed=True)
            ops = [R.subst_ns(o, ns) for o in ops]  # what the request means under that binding
            ctx.probe("prefix-from-graph-bindings")
        elif req.get("base"):
            text = R.r_request(ops, base=True)
            ctx.probe("base-before-first-operation")
        elif req.get("declared"):
            g.bind("ex", URIRef("http://other.example/ns#"), override=True, replace=True)
            text = f"PREFIX ex: <{R.EXNS}>\n" + R.r_request(ops, prefixed=True)
            ctx.probe("prefix-declared-in-request-and-bound-otherwise-on-handle")
        else:
            text = R.r_request(ops)
        initb = None
        if req.get("initb") and len(ops) == 1 and ops[0]["op"] == "modify":
            v, val = req["initb"]
            initb = {Variable(v): T(val)}
            ops = [dict(ops[0], where={"t": "values", "var": v, "vals": [val], "p": ops[0]["where"]})]
            ctx.probe("initBindings")
            if not T(val):
                ctx.probe("initBindings-falsy-term")
        ctx.op(h, "+".join(o["op"] for o in ops))
        if len(ops) > 1:
            ctx.probe("request-multi-op")
        pre = observe(store)
        pre_b = iso.bnodes(pre)
        view = model_view(h, defkey)
        before = copy.deepcopy(view)
        prefixes = []
        alt = copy.deepcopy(view) if any(o.get("using_named") or (o.get("using") and _has_graph(o["where"])) for o in ops) else None
        dwv = [o for o in ops if o["op"] == "delete-where" and any(gt[0] == "v" for gt, _ in o["data"].get("graphs", []))]
        alt2 = copy.deepcopy(view) if dwv else None
        alt_fresh, alt2_fresh = R.Fresh(), R.Fresh()
        alt_fresh.n = alt2_fresh.n = 1000  # labels distinct from the main model's
        for o in ops:
            _probe(ctx, o, view, union and not single)
            R.apply_op(view, o, union, fresh, single_graph=single, default_iri=defkey if defkey[0] == "u" else None)
            prefixes.append(copy.deepcopy(view))
            if alt is not None:
                R.apply_op(alt, o, union, alt_fresh, single_graph=single, ignore_using_named=True, default_iri=defkey if defkey[0] == "u" else None)
            if alt2 is not None and o not in dwv:
                R.apply_op(alt2, o, union, alt2_fresh, single_graph=single, default_iri=defkey if defkey[0] == "u" else None)
        store_back(view, defkey)
        if view != before:
            ctx.probe("request-changed-model")
        err = None
        try:
            g.update(text, initBindings=initb) if initb else g.update(text)
        except Exception as e:
            err = e
        where = f"request #{req['uid']} through {h} (union switch {'on' if union else 'off'}):\n{text}\n"
        if err is not None:
            # only a missing-source ADD/MOVE/COPY may fail; then the state must be the one before that operation
            ok = False
            got = observe(store)
            for i, o in enumerate(ops):
                if o["op"] in ("add", "move", "copy") and not o.get("silent"):
                    prev = before if i == 0 else prefixes[i - 1]
                    src = R.DEFAULT if o["src"] == "DEFAULT" else R.skey(o["src"])
                    if not prev.get(src):
                        tmp = {t + ((defkey if gk == R.DEFAULT else gk),) for gk, ts in prev.items() for t in ts}
                        if iso.find_embedding(tmp, got, fixed=frozenset(pre_b), onto=True) is not None:
                            ok = True
                            store_back(copy.deepcopy(prev), defkey)
                            break
            if not ok:
                ctx.deviation("C10.request-raised", f"{where} raised {type(err).__name__}: {err}", err=type(err).__name__, msg=str(err)[:200], handle=h, union=union, ops=[o["op"] for o in ops])
            ctx.log("request", f"{h} raised {type(err).__name__}")
            continue
        alt_quads = None
        if alt is not None:
            alt_quads = {t + ((defkey if gk == R.DEFAULT else gk),) for gk, ts in alt.items() for t in ts}
        alt2_quads = None
        if alt2 is not None:
            alt2_quads = {t + ((defkey if gk == R.DEFAULT else gk),) for gk, ts in alt2.items() for t in ts}
        r = compare(where, pre_b, alt_known=alt_quads, alt2_known=alt2_quads)
        if r == "known":
            raise KnownStop()  # the store now holds what the listed defect produced; the model cannot follow
        # keep the model's labels for blank nodes created by this request in line with rdflib's ids
        got = observe(store)
        mm = iso.find_embedding(model_quads(), got, fixed=frozenset(pre_b), onto=True, forbidden_images=frozenset(pre_b))
        if mm:
            ren = lambda k: mm.get(k, k)  # noqa: E731
            renamed = {}
            for gk in list(model):
                # (a graph may itself be named by a blank node the request created)
                renamed.setdefault(ren(gk) if isinstance(gk, tuple) else gk, set()).update({tuple(ren(x) for x in t) for t in model[gk]})
            model.clear()
            model.update(renamed)
        ctx.log("request", f"{h} {[o['op'] for o in ops]} -> {len(got)} quads")
        ctx.state(_srt(model_quads()) if len(got) < 12 else len(got), h)


def _uses_dataset(o):
    if o["op"] == "modify":
        if o.get("with") or o.get("using") or o.get("using_named"):
            return True
        if _has_graph(o["where"]):
            return True
        return any(t and t.get("graphs") for t in (o.get("delete"), o.get("insert")))
    return bool(o.get("data", {}).get("graphs"))


def _has_graph(p):
    if p["t"] == "graph":
        return True
    return any(_has_graph(p[k]) for k in ("a", "b", "p") if isinstance(p.get(k), dict))


def _probe(ctx, o, view, union):
    k = o["op"]
    if k == "modify":
        if o.get("with"):
            ctx.probe("with-clause")
        if o.get("using") or o.get("using_named"):
            ctx.probe("using-clause")
        named = {g: ts for g, ts in view.items() if g != R.DEFAULT}
        D = view.get(R.DEFAULT, set())
        if any(t in ts for t in D for ts in named.values()):
            ctx.probe("default-and-named-share-triple")
        try:
            active = set(D)
            if union:
                for ts in named.values():
                    active |= ts
            if o.get("with") and not (o.get("using") or o.get("using_named")):
                active = set(view.get(R.skey(o["with"]), set()))
            sols = R.ev(o["where"], {"default": active, "named": named}, active)
        except Exception:
            sols = []
        if len(sols) >= 2:
            ctx.probe("where-2+solutions")
            fr = R.Fresh()
            dels = {x for mu in sols for x in (R._instantiate(o["delete"], mu, fr, R.DEFAULT) if o.get("delete") else [])}
            ins = {x for mu in sols for x in (R._instantiate(o["insert"], mu, fr, R.DEFAULT, bmap={}) if o.get("insert") else [])}
            if dels & ins:
                ctx.probe("overlapping-delete-insert-across-solutions")
            if o.get("insert") and any(x[0] == "b" for ts in [o["insert"].get("triples", [])] + [t for _, t in o["insert"].get("graphs", [])] for tr in ts for x in tr):
                ctx.probe("template-bnode-multi-solution")
        for tpl in (o.get("delete"), o.get("insert")):
            if tpl:
                if "unbound" in _vars_in(tpl):
                    ctx.probe("template-unbound-var")
                if any(g[0] == "v" for g, _ in tpl.get("graphs", [])):
                    ctx.probe("graph-var-in-template")
        if o.get("insert") and sols:
            for mu in sols:
                for s, p, _o in o["insert"].get("triples", []):
                    if s[0] == "v" and (mu.get(s[1]) or ("u",))[0] == "l":
                        ctx.probe("template-illegal-literal")
    if k in ("add", "move", "copy"):
        if o["src"] == o["dst"]:
            ctx.probe("move-src-eq-dst")
        src = R.DEFAULT if o["src"] == "DEFAULT" else R.skey(o["src"])
        if not view.get(src):
            ctx.probe("missing-source-graph")


def simplify(trace):
    import copy as _c

    for j in range(len(trace["config"]["init"])):
        t = _c.deepcopy(trace)
        del t["config"]["init"][j]
        yield t
    for i, req in enumerate(trace["ops"]):
        if len(req["ops"]) > 1:
            for j in range(len(req["ops"])):
                t = _c.deepcopy(trace)
                del t["ops"][i]["ops"][j]
                yield t
        for j, o in enumerate(req["ops"]):
            for f in ("with", "using", "using_named"):
                if o.get(f):
                    t = _c.deepcopy(trace)
                    del t["ops"][i]["ops"][j][f]
                    yield t
            for f in ("delete", "insert"):
                if o.get(f) and o.get("delete") and o.get("insert"):
                    t = _c.deepcopy(trace)
                    del t["ops"][i]["ops"][j][f]
                    yield t
            for f in ("delete", "insert", "data"):
                tpl = o.get(f)
                if tpl and tpl.get("graphs") and (tpl.get("triples") or len(tpl["graphs"]) > 1):
                    t = _c.deepcopy(trace)
                    t["ops"][i]["ops"][j][f]["graphs"] = tpl["graphs"][1:]
                    yield t
                if tpl and len(tpl.get("triples", [])) > 1:
                    t = _c.deepcopy(trace)
                    t["ops"][i]["ops"][j][f]["triples"] = tpl["triples"][1:]
                    yield t
