"""C13 - reading a graph never changes it; the same read twice gives the same answer.

A Graph or Dataset state, then a seeded schedule of read-only calls in any order and repetition with
lazy ones left open across later calls (stepped, closed or dropped by the scheduler).  Faults:
destinations that fail mid-write, cancelled readers, unreachable network.
Oracle: conservation (quads and set of graphs identical before/after every call, through an
independent traversal of the store) and repeatability (same fault-free call twice => same answer).
"""
from __future__ import annotations

import io
import os
import tempfile

from sim import iso, kernel
from sim.rng import Stream
from sim.simio import FailingSink
from sim.terms import EX, XSD, T, key, skey, u

ID = "C13"
LEVEL = "exploration"
TIERS = {"quick": {"runs": 3200, "wall_cap": 600}, "thorough": {"runs": 50000, "wall_cap": 3300}}
RULE = (
    "each evaluation is one seeded state (Graph, Dataset default_union off/on, ConjunctiveGraph; <=4 graphs incl. a blank-node-named and an "
    "empty created graph, falsy terms, an rdf:List) followed by a seeded schedule of <=25 read-only calls: serialise in every registered "
    "format (to None, a stream whose k-th write fails with ENOSPC/EPIPE, a real temp path), SELECT/ASK/CONSTRUCT/DESCRIBE queries (BGP, "
    "OPTIONAL, UNION, FILTER, GRAPH incl. unknown graphs, FROM/FROM NAMED, sub-select, aggregates, paths; lazy results stepped/closed/dropped), "
    "triples/subjects/objects with path predicates, slicing, len, membership with identifiers and with foreign Graph objects as the graph, "
    "graphs/contexts/quads, value/items/cbd/all_nodes/connected, isomorphic/to_isomorphic/to_canonical_graph/graph_diff, skolemize/"
    "de_skolemize, Collection reads, SPARQL result serialisation; before and after every call the quads and the set of graphs are compared "
    "via an independent traversal of the store, fault-free calls are issued twice and their answers compared; distinct = distinct trace "
    "digest; non-trivial = at least 6 read calls of at least 4 different kinds on a state with at least 3 quads"
)
REAL = ["all rdflib serializers", "SPARQL parser/algebra/evaluator", "rdflib.paths", "rdflib.compare", "rdflib.collection", "rdflib.graph", "SPARQL result serializers", "Memory store"]
STUB = ["destination streams (FailingSink)", "network: every urlopen seam refuses deterministically", "uuid4 / random seeded"]
ASSUMPTIONS = [
    "graph set = identifiers of store.contexts(); Dataset.graphs() itself registers the default graph as a side effect and is therefore observed through the store, after priming it once before the schedule starts",
    "repeatability compares serialisations as bytes and, if they differ, re-parsed up to blank-node bijection (a respelling is a probe, not an alarm)",
    "a faulted read (failing destination, refused network) may raise; it may not change the source",
]
PROBES = ["dest-write-failed", "lazy-reader-left-open-across-reads", "reader-cancelled", "foreign-graph-as-context", "graph-unknown-in-query", "network-refused", "network-used", "bnode-named-graph-present", "empty-graph-present", "read-raised", "serializer-option"]
KNOWN_PREDICATES = {}

DEFAULT = "urn:x-rdflib:default"
GFORMATS = ["nt", "turtle", "longturtle", "n3", "xml", "pretty-xml", "json-ld", "hext", "trig", "nquads", "trix"]
RFORMATS = ["json", "xml", "csv", "txt"]


def _srt(xs):
    return sorted(xs, key=repr)


def warm():
    import rdflib  # noqa
    import rdflib.compare  # noqa
    import rdflib.collection  # noqa
    import rdflib.paths  # noqa
    import rdflib.plugins.sparql  # noqa
    import rdflib.plugins.sparql.evaluate  # noqa
    from rdflib import plugin
    from rdflib.parser import Parser
    from rdflib.query import ResultSerializer
    from rdflib.serializer import Serializer

    for f in GFORMATS:
        plugin.get(f, Serializer)
    for f in ["nt", "nquads", "turtle", "trig", "xml", "trix", "json-ld", "hext", "n3"]:
        plugin.get(f, Parser)
    for f in RFORMATS:
        plugin.get(f, ResultSerializer)
    import rdflib.plugins.parsers.notation3  # noqa


P, Q = EX + "p", EX + "q"
QUERIES = [
    "SELECT ?s ?o WHERE { ?s <%(p)s> ?o }",
    "SELECT * WHERE { ?s ?p ?o OPTIONAL { ?o <%(q)s> ?x } }",
    "SELECT ?s WHERE { { ?s <%(p)s> ?o } UNION { ?s <%(q)s> ?o } }",
    "SELECT ?s ?o WHERE { ?s ?p ?o FILTER(?o != <%(o)s>) } ORDER BY ?s ?o",
    "SELECT ?g ?s WHERE { GRAPH ?g { ?s ?p ?o } }",
    "SELECT ?s WHERE { GRAPH <%(g1)s> { ?s ?p ?o } }",
    "SELECT ?s WHERE { GRAPH <%(unk)s> { ?s ?p ?o } }",
    "SELECT ?g WHERE { GRAPH ?g { } }",
    "SELECT ?s ?o FROM <%(g1)s> WHERE { ?s ?p ?o }",
    "SELECT ?g ?s FROM NAMED <%(g1)s> WHERE { GRAPH ?g { ?s ?p ?o } }",
    "SELECT ?s (COUNT(?o) AS ?n) WHERE { ?s ?p ?o } GROUP BY ?s",
    "SELECT ?s WHERE { ?s <%(p)s> ?o { SELECT ?o WHERE { ?o <%(q)s> ?z } } }",
    "SELECT ?s ?o WHERE { ?s <%(p)s>+ ?o }",
    "SELECT ?s ?o WHERE { ?s (<%(p)s>|^<%(q)s>)* ?o }",
    "ASK { ?s <%(p)s> ?o }",
    "ASK { GRAPH <%(unk)s> { ?s ?p ?o } }",
    "CONSTRUCT { ?o <%(q)s> ?s } WHERE { ?s <%(p)s> ?o }",
    "CONSTRUCT { [] <%(p)s> ?o } WHERE { ?s <%(p)s> ?o }",
    "DESCRIBE <%(s)s>",
    "DESCRIBE ?s WHERE { ?s <%(p)s> ?o }",
    "SELECT ?s FROM <http://unreachable.example/doc.ttl> WHERE { ?s ?p ?o }",
    "SELECT ?x WHERE { ?l <http://www.w3.org/1999/02/22-rdf-syntax-ns#rest>*/<http://www.w3.org/1999/02/22-rdf-syntax-ns#first> ?x }",
    "SELECT ?s ?o WHERE { ?s ?p ?o . VALUES ?g2 { <%(unk)s> } GRAPH ?g2 { ?a ?b ?c } }",
    "SELECT ?s ?o FROM <http://sim.example/doc.ttl> WHERE { ?s ?p ?o }",
    "SELECT ?g ?s FROM NAMED <http://sim.example/doc.ttl> WHERE { GRAPH ?g { ?s ?p ?o } }",
    "SELECT ?g ?s FROM <http://sim.example/doc.nt> FROM NAMED <http://sim.example/doc.ttl> FROM NAMED <%(g1)s> WHERE { { ?s ?p ?o } UNION { GRAPH ?g { ?s ?p ?o } } }",
    "ASK FROM NAMED <http://sim.example/moved> { GRAPH ?g { ?s ?p ?o } }",
    "ASK { GRAPH <%(unk)s> { } }",
    "SELECT ?s WHERE { ?s ?p ?o GRAPH <%(unk)s> { OPTIONAL { ?a ?b ?c } } } LIMIT 1",
    "SELECT ?s ?g2 WHERE { ?s ?p ?o BIND(<%(unk)s> AS ?g2) GRAPH ?g2 { OPTIONAL { ?a <%(p)s> ?c } } }",
    "ASK { ?s ?p ?o GRAPH <%(unk)s> { BIND(1 AS ?one) } }",
    "SELECT ?s WHERE { GRAPH <%(g1)s> { ?s ?p ?o } } LIMIT 1",
]
DOC_TTL = b"@prefix ex: <http://ex.org/> .\nex:ext ex:p ex:o , [ ex:q 1 ] .\n"
DOC_NT = b"<http://ex.org/ext2> <http://ex.org/p> \"z\" .\n"
ROUTES = {
    "http://sim.example/doc.ttl": (200, {"Content-Type": "text/turtle"}, DOC_TTL),
    "http://sim.example/doc.nt": (200, {"Content-Type": "application/n-triples"}, DOC_NT),
    "http://sim.example/moved": (302, {"Location": "http://sim.example/doc.ttl"}, b""),
}
MISC = ["len", "contains", "contains-foreign", "triples-foreign-context", "graphs", "contexts", "quads", "value", "items", "cbd", "all_nodes", "connected", "isomorphic", "to_isomorphic", "to_canonical_graph", "graph_diff", "skolemize", "de_skolemize", "collection", "slice", "subjects", "objects", "path", "iter", "get_context-read", "bool", "n3", "eq", "transitive_objects", "transitive_subjects", "transitiveClosure", "triples_choices", "resource", "subject_predicates", "predicate_objects", "getitem-path", "contexts-triple", "print", "prepared-query", "isomorphic-copy", "subtract", "union-op", "triples_choices-foreign", "quads-foreign", "remove-nothing", "get_context-foreign", "query-graphvar-bound-to-foreign-graph"]


def generate(seed, tier):
    g = Stream(seed, "gen")
    sched = Stream(seed, "sched")
    kind = g.choice(["graph", "dataset-F", "dataset-T", "dataset-T", "cg"])
    names = [u("g1"), ["b", "gb"], u("g2")]
    subs = [u("s"), ["b", "n1"], u("o")]
    preds = [u("p"), u("q")]
    objs = [u("o"), ["b", "n1"], ["l", "", None, None], ["l", "0", None, XSD + "integer"], ["l", "false", None, XSD + "boolean"], ["l", "x", "en", None], u("s")]
    if g.chance(0.25):
        # IRIs for which the serialisers have to generate a prefix; a local name that ends in "." cannot be written as prefix:local
        subs = subs + [u("ns#"), u("v/item")]
        preds = preds + [u("ns#a."), u("v/rel")]
    userprefix = g.chance(0.2)
    if userprefix:
        # a namespace for which rdflib has a default prefix (schema:), bound by the user to a prefix of their own
        preds = preds + [["u", "https://schema.org/name"]]
    quads = []
    for _ in range(g.randint(2, 12)):
        gr = None if kind == "graph" else g.choice([None, None, 0, 1, 2])
        quads.append([g.pick(subs), g.pick(preds), g.pick(objs), gr])
    cfg = {"kind": kind, "names": names, "quads": quads, "list": g.chance(0.5), "empty_graph": g.chance(0.5) and kind != "graph", "remove_one": g.chance(0.3), "subscriber": g.chance(0.15), "userprefix": userprefix}
    ops = []
    nlazy = 0
    live = []
    for i in range(g.randint(3, 25 if tier == "quick" else 40)):
        uid = i + 1
        if live and sched.chance(0.35):
            r = sched.pick(live)
            k = sched.choice(["step", "step", "drain", "close", "drop"])
            op = {"uid": uid, "k": k, "r": r, "n": sched.choice([1, 2])}
            if k in ("drain", "close", "drop"):
                live.remove(r)
            ops.append(op)
            continue
        kindop = g.weighted([("ser", 4), ("query", 5), ("misc", 5), ("resser", 1), ("write", 0.7)])
        op = {"uid": uid, "k": kindop, "twice": g.chance(0.6)}
        if kindop == "ser":
            op["format"] = g.pick(GFORMATS)
            op["dest"] = g.choice(["none", "none", "stream", "failing", "failing", "path"])
            op["fail_at"] = g.randint(1, 4)
            op["err"] = g.choice(["ENOSPC", "EPIPE"])
            op["on"] = g.choice(["top", "top", "view"])
            opts = {"longturtle": [{"canon": True}], "turtle": [{"spacious": True}, {"base": "http://ex.org/"}], "pretty-xml": [{"max_depth": 1}], "xml": [{"base": "http://ex.org/"}],
                    "json-ld": [{"auto_compact": True}, {"context": {"ex": "http://ex.org/"}}, {"use_native_types": True}], "nt": [{"encoding": "utf-8"}], "trig": [{"base": "http://ex.org/"}], "n3": [{"base": "http://ex.org/"}]}
            if op["format"] in opts and g.chance(0.4):
                op["args"] = g.choice(opts[op["format"]])
        elif kindop == "query":
            op["q"] = g.randrange(len(QUERIES))
            op["mode"] = g.choice(["list", "list", "lazy", "bindings"])
            op["on"] = g.choice(["top", "top", "view"])
            if op["mode"] == "lazy":
                nlazy += 1
                op["r"] = nlazy
                live.append(nlazy)
                op["twice"] = False
        elif kindop == "misc":
            op["what"] = g.pick(MISC)
            op["pat"] = [g.choice([None, g.pick(subs)]), g.choice([None, g.pick(preds)]), g.choice([None, g.pick(objs)])]
            op["g"] = g.choice([None, 0, 1, 2, "unknown"])
            op["path"] = g.choice(["+", "*", "?", "inv", "alt", "seq", "neg"])
            if op["what"] in ("iter", "path") and g.chance(0.5):
                nlazy += 1
                op["r"] = nlazy
                live.append(nlazy)
                op["twice"] = False
        elif kindop == "write":
            # not a read: one triple (often one that another graph already holds) is added to one graph, and the dataset afterwards
            # must be the dataset before plus exactly that quad - whatever was read before
            op["twice"] = False
            op["t"] = list(g.pick(quads)[:3]) if g.chance(0.7) else [g.pick(subs), g.pick(preds), g.pick(objs)]
            op["g"] = g.choice([None, 0, 1, 2])
        else:
            op["q"] = g.choice([0, 1, 3, 4, 10, 14])
            op["format"] = g.pick(RFORMATS)
        ops.append(op)
    return {"property": ID, "config": cfg, "ops": ops}


def nontrivial(trace, res):
    kinds = {(o["k"], o.get("format") or o.get("q") or o.get("what")) for o in trace["ops"] if o["k"] in ("ser", "query", "misc", "resser")}
    return len(trace["ops"]) >= 6 and len(kinds) >= 4 and len(trace["config"]["quads"]) >= 3


def observe(store):
    quads = set()
    ctxs = set()
    for c in list(store.contexts()):
        ck = key(c.identifier)
        ctxs.add(ck)
        for (s, p, o), _ in store.triples((None, None, None), c):
            quads.add((key(s), key(p), key(o), ck))
    return quads, ctxs


def _gkeys(graph):
    return {tuple(key(x) for x in t) for t in graph}


def execute(trace, ctx):
    import warnings

    from rdflib import BNode, ConjunctiveGraph, Dataset, Graph, Literal, URIRef
    from rdflib.collection import Collection
    from rdflib.compare import graph_diff, isomorphic, to_canonical_graph, to_isomorphic
    from rdflib.namespace import RDF
    from rdflib.paths import AlternativePath, InvPath, MulPath, NegatedPath, SequencePath
    from rdflib.plugins.stores.memory import Memory

    warnings.simplefilter("ignore")
    cfg = trace["config"]
    kind = cfg["kind"]
    names = cfg["names"]
    store = Memory()
    if cfg.get("subscriber"):
        kernel.counting_subscriber(store, ctx)
    if kind == "graph":
        top = Graph(store, URIRef(EX + "thegraph"))
    elif kind.startswith("dataset"):
        top = Dataset(store, default_union=kind.endswith("T"))
    else:
        top = ConjunctiveGraph(store, identifier=URIRef(EX + "cgdefault"))
    deftarget = {"graph": EX + "thegraph", "cg": EX + "cgdefault"}.get(kind, DEFAULT)

    def gid(gi):
        return URIRef(deftarget) if gi is None else T(names[gi])

    for s, p, o, gi in cfg["quads"]:
        Graph(store, gid(gi)).add((T(s), T(p), T(o)))
    if cfg["list"]:
        Collection(Graph(store, gid(None)), BNode("lst"), [Literal(0), Literal(""), URIRef(EX + "o")])
        Graph(store, gid(None)).add((URIRef(EX + "s"), URIRef(EX + "list"), BNode("lst")))
    if cfg["empty_graph"] and kind.startswith("dataset"):
        top.graph(URIRef(EX + "emptygraph"))
        ctx.probe("empty-graph-present")
    if cfg["remove_one"] and cfg["quads"]:
        s, p, o, gi = cfg["quads"][0]
        Graph(store, gid(gi)).remove((T(s), T(p), T(o)))
    if cfg.get("userprefix"):
        top.bind("mine", URIRef("https://schema.org/"))
        ctx.probe("user-prefix-for-a-namespace-with-a-default-prefix")
    if kind.startswith("dataset"):
        list(top.graphs())  # prime: graphs() registers the default graph (documented get-or-create); not part of the judged schedule
    if any(q[3] == 1 for q in cfg["quads"]):
        ctx.probe("bnode-named-graph-present")
    view_name = gid(0 if kind != "graph" else None)

    fmt = {"p": P, "q": Q, "o": EX + "o", "s": EX + "s", "g1": EX + "g1", "unk": EX + "unknown-graph"}
    foreign = Graph(Memory(), URIRef(EX + "g1"))
    foreign.add((URIRef(EX + "foreign"), URIRef(P), Literal("f")))
    foreign_unknown = Graph(Memory(), URIRef(EX + "foreign-graph"))
    foreign_unknown.add((URIRef(EX + "foreign2"), URIRef(P), Literal("f2")))
    tmpdir = tempfile.mkdtemp(prefix="verif-c13-", dir="/var/tmp")
    from sim.simio import SimNet

    kernel.NET = kernel.refuse_network(SimNet(ROUTES, stats=ctx.faults))
    lazies = {}
    prepared_queries = {}

    def target(op):
        if op.get("on") == "view" and kind != "graph":
            return Graph(store, view_name)
        return top

    path_objects = {}
    path_spelled = {}

    def path_of(op):
        # one path object per kind for the whole run: evaluating it (forwards, backwards, with both ends open) must leave it as it was
        w = op.get("path")
        if w not in path_objects:
            p, q = URIRef(P), URIRef(Q)
            path_objects[w] = {"+": MulPath(p, "+"), "*": MulPath(p, "*"), "?": MulPath(p, "?"), "inv": InvPath(p), "alt": AlternativePath(p, q), "seq": SequencePath(p, q), "neg": NegatedPath(p)}[w]
            ctx.probe("path-object-reused")
            path_spelled[w] = path_objects[w].n3()
        po = path_objects[w]
        # building larger paths out of it is a read-only use as well: the object keeps meaning what it meant
        r_ = URIRef(P + "-other")
        for build in (lambda: po / r_, lambda: r_ / po, lambda: po | r_, lambda: ~po, lambda: po * "*", lambda: SequencePath(po, r_, URIRef(Q)), lambda: AlternativePath(po, r_, URIRef(Q))):
            build()
        ctx.check(po.n3() == path_spelled[w], "C13.path-object-changed", lambda: f"the path object for {w!r} was {path_spelled[w]} when it was made and is {po.n3()} after larger paths were built from it")
        return po

    def norm_rows(res):
        if res.type == "ASK":
            return ("ask", bool(res.askAnswer))
        if res.type in ("CONSTRUCT", "DESCRIBE"):
            return ("graph", _gkeys(res.graph))
        vars_ = [str(v) for v in res.vars]
        rows = []
        own = {k for q in before_q for k in q if k[0] == "b"}

        def nk(t):
            k = key(t)
            # blank nodes that are not in the source were minted by this read (e.g. a document loaded for FROM): excluded by the statement
            return ("b", "<minted>") if k[0] == "b" and k not in own else k

        for b in res.bindings:
            rows.append(tuple((v, nk(b[x]) if b.get(x) is not None else None) for v, x in zip(vars_, res.vars)))
        return ("select", vars_, sorted(rows, key=repr))

    def do_read(op, second=False):
        """perform the read; returns (answer, faulted)"""
        k = op["k"]
        t = target(op)
        if k == "ser":
            f = op["format"]
            d = op["dest"]
            args = dict(op.get("args") or {})
            if args:
                ctx.probe("serializer-option")
            if d == "none":
                out = t.serialize(format=f, **args)
                return ("bytes", f, out if isinstance(out, bytes) else out.encode("utf-8")), False
            if d == "stream":
                b = io.BytesIO()
                t.serialize(destination=b, format=f, **args)
                return ("bytes", f, b.getvalue()), False
            if d == "path":
                pth = os.path.join(tmpdir, f"out{op['uid']}{'b' if second else 'a'}.{f}")
                t.serialize(destination=pth, format=f, **args)
                with open(pth, "rb") as fh:
                    return ("bytes", f, fh.read()), False
            import errno as _e

            sink = FailingSink(op["fail_at"], getattr(_e, op["err"]))
            try:
                t.serialize(destination=sink, format=f, **args)
            finally:
                if sink.fired:
                    ctx.fault("dest-" + op["err"])
                    ctx.probe("dest-write-failed")
            return ("bytes", f, bytes(sink.accepted)), sink.fired
        if k == "query":
            qtext = QUERIES[op["q"]] % fmt
            if "unknown-graph" in qtext:
                ctx.probe("graph-unknown-in-query")
            res = t.query(qtext)
            if op["mode"] == "lazy":
                return ("lazy", iter(res)), False
            return norm_rows(res), False
        if k == "resser":
            res = t.query(QUERIES[op["q"]] % fmt)
            out = res.serialize(format=op["format"])
            return ("bytes", "result-" + op["format"], out if isinstance(out, bytes) else str(out).encode()), False
        # misc
        w = op["what"]
        pat = tuple(T(x) for x in op["pat"])
        gsel = op.get("g")
        gname = URIRef(EX + "unknown-graph") if gsel == "unknown" else gid(gsel)
        isds = kind != "graph"
        if w == "len":
            return ("v", len(t)), False
        if w == "bool":
            return ("v", bool(t)), False
        if w == "n3":
            return ("v", t.n3() if not isds else str(t)), False
        if w == "eq":
            return ("v", t == Graph(store, gname)), False
        if w == "contains":
            if isds and all(x is not None for x in pat):
                return ("v", (pat + (gname,)) in top), False
            return ("v", pat in t), False
        if w == "contains-foreign":
            if not isds:
                return ("v", None), False
            ctx.probe("foreign-graph-as-context")
            fg = foreign if gsel in (0, None) else foreign_unknown
            return ("v", ((pat[0] or URIRef(EX + "s"), pat[1] or URIRef(P), pat[2] or URIRef(EX + "o"), fg) in top)), False
        if w == "triples-foreign-context":
            if not isds:
                return ("v", None), False
            ctx.probe("foreign-graph-as-context")
            fg = foreign if gsel in (0, None) else foreign_unknown
            a = _srt(tuple(key(x) for x in tr) for tr in top.triples(pat, context=fg))
            b = _srt(tuple(key(x) for x in q[:3]) for q in top.quads(pat + (fg,)))
            return ("v", a, b), False
        if w == "graphs":
            if kind.startswith("dataset"):
                return ("v", _srt(key(g.identifier) for g in top.graphs())), False
            return ("v", None), False
        if w == "contexts":
            if isds:
                return ("v", _srt(key(g.identifier) for g in top.contexts())), False
            return ("v", None), False
        if w == "quads":
            if isds:
                return ("v", _srt(tuple(key(x) if not isinstance(x, Graph) and x is not None else (key(x.identifier) if x is not None else None) for x in q) for q in top.quads(pat + (None,)))), False
            return ("v", None), False
        if w == "get_context-read":
            if isds:
                return ("v", _srt(_gkeys(top.get_context(gname)))), False
            return ("v", None), False
        if w == "value":
            return ("v", key(t.value(pat[0] or URIRef(EX + "s"), pat[1] or URIRef(P), None, any=True)) if True else None), False
        if w == "items":
            return ("v", [key(x) for x in t.items(BNode("lst"))]), False
        if w == "collection":
            c = Collection(t if not isds else Graph(store, gid(None)), BNode("lst"))
            try:
                first = key(c[0])
            except IndexError:
                first = None
            return ("v", len(c), [key(x) for x in c], first), False
        if w == "cbd":
            return ("graph", _gkeys(t.cbd(URIRef(EX + "s")))), False
        if w == "all_nodes":
            return ("v", _srt(key(x) for x in t.all_nodes())), False
        if w == "connected":
            return ("v", t.connected()), False
        if w in ("isomorphic", "to_isomorphic", "to_canonical_graph", "graph_diff", "skolemize", "de_skolemize"):
            g0 = t if not isds else Graph(store, gname)
            if w == "isomorphic":
                return ("v", isomorphic(g0, g0), g0.isomorphic(Graph(store, gid(None)))), False
            if w == "to_isomorphic":
                ig = to_isomorphic(g0)
                return ("v", ig.graph_digest() if hasattr(ig, "graph_digest") else None, len(ig)), False
            if w == "to_canonical_graph":
                return ("graph", _gkeys(to_canonical_graph(g0))), False
            if w == "graph_diff":
                both, a, b = graph_diff(g0, Graph(store, gid(None)))
                return ("v", len(both), len(a), len(b)), False
            if w == "skolemize":
                return ("graph", _gkeys(g0.skolemize())), False
            return ("graph", _gkeys(g0.skolemize().de_skolemize())), False
        if w == "transitive_objects":
            return ("v", [key(x) for x in t.transitive_objects(pat[0] or URIRef(EX + "s"), URIRef(P))]), False
        if w == "transitive_subjects":
            return ("v", [key(x) for x in t.transitive_subjects(URIRef(P), pat[2] or URIRef(EX + "o"))]), False
        if w == "transitiveClosure":
            def nxt(node, g_):
                return g_.objects(node, URIRef(P))

            return ("v", [key(x) for x in t.transitiveClosure(nxt, pat[0] or URIRef(EX + "s"))]), False
        if w == "triples_choices-foreign":
            if not isds:
                return ("v", None), False
            ctx.probe("foreign-graph-as-context")
            fg = foreign if gsel in (0, None) else foreign_unknown
            return ("v", _srt(tuple(key(y) for y in x) for x in top.triples_choices((pat[0], [URIRef(P), URIRef(Q)], pat[2]), context=fg))), False
        if w == "get_context-foreign":
            # a Graph object of another store handed to get_context(): an error or a view, never an import
            if not isds:
                return ("v", None), False
            ctx.probe("foreign-graph-as-context")
            fg = foreign if gsel in (0, None) else foreign_unknown
            return ("v", _srt(_gkeys(top.get_context(fg)))), False
        if w == "query-graphvar-bound-to-foreign-graph":
            if not isds:
                return ("v", None), False
            ctx.probe("foreign-graph-as-context")
            fg = foreign if gsel in (0, None) else foreign_unknown
            return ("v", _srt(tuple(key(y) for y in row) for row in top.query("SELECT ?s ?p ?o WHERE { GRAPH ?g { ?s ?p ?o } }", initBindings={"g": fg}))), False
        if w == "quads-foreign":
            if not isds:
                return ("v", None), False
            ctx.probe("foreign-graph-as-context")
            fg = foreign if gsel in (0, None) else foreign_unknown
            return ("v", _srt(tuple(key(y) for y in q[:3]) for q in top.quads(pat + (fg,)))), False
        if w == "remove-nothing":
            # not a read, but it must be a no-op: removing a triple that is in no graph (also with a foreign graph as the graph)
            absent = (URIRef(EX + "absent"), URIRef(P), Literal("absent"))
            if isds:
                top.remove(absent + (foreign_unknown,))
            t.remove(absent)
            return ("v", None), False
        if w == "triples_choices":
            return ("v", _srt(tuple(key(y) for y in x) for x in t.triples_choices((pat[0], [URIRef(P), URIRef(Q)], pat[2])))), False
        if w == "resource":
            r = t.resource(URIRef(EX + "s"))
            return ("v", _srt((key(a.identifier if hasattr(a, "identifier") else a), key(b.identifier if hasattr(b, "identifier") and not isinstance(b, (URIRef, BNode, Literal)) else b)) for a, b in r.predicate_objects())), False
        if w == "subject_predicates":
            return ("v", _srt((key(a), key(b)) for a, b in t.subject_predicates(pat[2]))), False
        if w == "predicate_objects":
            return ("v", _srt((key(a), key(b)) for a, b in t.predicate_objects(pat[0]))), False
        if w == "getitem-path":
            s_ = pat[0] if not isinstance(pat[0], Literal) else None
            return ("v", _srt(repr(tuple(key(y) for y in x) if isinstance(x, tuple) else key(x)) for x in t[s_ : path_of(op) : None])), False
        if w == "contexts-triple":
            if isds and all(x is not None for x in pat):
                return ("v", _srt(key(c.identifier) for c in top.contexts(pat))), False
            return ("v", None), False
        if w == "print":
            b = io.StringIO()
            t.print(format="turtle" if not isds else "nquads", out=b)
            return ("bytes", "turtle" if not isds else "nquads", b.getvalue().encode("utf-8")), False
        if w == "prepared-query":
            from rdflib.plugins.sparql.processor import prepareQuery

            # one prepared object per text for the whole run: evaluating it must leave nothing behind that changes the next evaluation
            texts_ = [QUERIES[0] % fmt, "SELECT ?s ?p ?o WHERE { ?s ?p ?o } ORDER BY ?p DESC(?o) ?s LIMIT 2", "SELECT ?o ?s WHERE { ?s ?p ?o } ORDER BY ?o ?s ?p LIMIT 3"]
            tx = texts_[(op["uid"] if not second else op["uid"]) % 3 if op.get("pat", [None])[0] is None else 0]
            if tx not in prepared_queries:
                prepared_queries[tx] = prepareQuery(tx)
            ctx.probe("prepared-query-object-reused")
            res_ = t.query(prepared_queries[tx])
            return ("ordered", [tuple(key(x) if x is not None else None for x in row) for row in res_]) if "ORDER BY" in tx else norm_rows(res_), False
        if w == "isomorphic-copy":
            g0 = t if not isds else Graph(store, gname)
            cp = Graph()
            for tr in g0:
                cp.add(tr)
            return ("v", isomorphic(g0, cp), len(cp)), False
        if w in ("subtract", "union-op"):
            g0 = t if not isds else Graph(store, gname)
            g1 = Graph(store, gid(None))
            res_g = (g0 - g1) if w == "subtract" else (g0 + g1)
            return ("graph", _gkeys(res_g)), False
        if w == "slice":
            s_, p_, o_ = pat
            if isinstance(s_, Literal):
                s_ = None
            if s_ is not None and p_ is not None and o_ is not None:
                o_ = None
            return ("v", _srt(repr(tuple(key(y) for y in x) if isinstance(x, tuple) else key(x)) for x in t[s_:p_:o_])), False
        if w == "subjects":
            return ("v", _srt(key(x) for x in t.subjects(pat[1], pat[2])), _srt(key(x) for x in t.subjects(pat[1], pat[2], unique=True))), False
        if w == "objects":
            return ("v", _srt(key(x) for x in t.objects(pat[0], pat[1]))), False
        if w == "path":
            gen = t.triples((pat[0], path_of(op), pat[2]))
            if "r" in op:
                return ("lazy", gen), False
            return ("v", _srt((key(a), key(c)) for a, _, c in gen)), False
        if w == "iter":
            gen = iter(t)
            if "r" in op:
                return ("lazy", gen), False
            return ("v", len(list(gen))), False
        raise ValueError(w)

    def same(a, b, op):
        if a == b:
            return True
        if a[0] == "graph" and b[0] == "graph":
            return iso.isomorphic({q + (None,) for q in a[1]}, {q + (None,) for q in b[1]})
        if a[0] == "bytes" and b[0] == "bytes":
            # re-parse and compare as datasets; a mere respelling is a probe, not an alarm
            f = a[1]
            pf = {"longturtle": "turtle", "pretty-xml": "xml"}.get(f, f)
            if pf.startswith("result-"):
                return False
            da, db = Dataset(), Dataset()
            try:
                da.parse(data=a[2], format=pf)
                db.parse(data=b[2], format=pf)
            except Exception:
                return False  # the two outputs differ and (at least) one of them cannot even be read back
            qa, _ = observe(da.store)
            qb, _ = observe(db.store)
            if iso.isomorphic(qa, qb):
                ctx.probe("respelled-on-repeat")
                return True
            return False
        return False

    before_q, before_c = observe(store)
    refused0 = [0]

    def conserve(where, op):
        nonlocal before_q, before_c
        q, c = observe(store)
        ctx.check(
            q == before_q,
            "C13.quads-changed",
            lambda: f"{where}: the read changed the quads: added={_srt(q - before_q)} removed={_srt(before_q - q)}",
            opk=op["k"],
            what=op.get("what"),
            fmt=op.get("format"),
            added=_srt(q - before_q),
            removed=_srt(before_q - q),
            kind=kind,
        )
        ctx.check(c == before_c, "C13.graph-set-changed", lambda: f"{where}: the read changed the set of graphs: new={_srt(c - before_c)} gone={_srt(before_c - c)}", opk=op["k"], what=op.get("what"), q=op.get("q"), fmt=op.get("format"), new=_srt(c - before_c), kind=kind)
        before_q, before_c = q, c

    try:
        for op in trace["ops"]:
            k = op["k"]
            ctx.op(kind, k + ":" + str(op.get("format") or op.get("what") or (("q%d" % op["q"]) if "q" in op else "")))
            where = f"op uid={op['uid']} {k} {op.get('format') or op.get('what') or op.get('q')}"
            if k in ("step", "drain", "close", "drop"):
                r = lazies.get(op["r"])
                if r is None:
                    continue
                if k == "close":
                    if hasattr(r, "close"):
                        r.close()
                    ctx.probe("reader-cancelled")
                    del lazies[op["r"]]
                elif k == "drop":
                    del lazies[op["r"]]
                    ctx.probe("reader-cancelled")
                else:
                    n = 10**6 if k == "drain" else op.get("n", 1)
                    try:
                        for _ in range(n):
                            next(r)
                    except StopIteration:
                        lazies.pop(op["r"], None)
                    except Exception as e:
                        ctx.probe("read-raised")
                        lazies.pop(op["r"], None)
                        ctx.log("lazy-raised", type(e).__name__)
                conserve(where, op)
                ctx.log(k, f"r{op['r']}")
                continue
            if k == "write":
                gi = op["g"] if kind != "graph" else None
                tgt = gid(gi)
                Graph(store, tgt).add((T(op["t"][0]), T(op["t"][1]), T(op["t"][2])))
                q2, c2 = observe(store)
                newq = (key(T(op["t"][0])), key(T(op["t"][1])), key(T(op["t"][2])), key(tgt))
                ctx.check(
                    q2 == before_q | {newq} and c2 == before_c | {key(tgt)},
                    "C13.write-after-reads",
                    lambda: f"{where}: after the reads so far, adding {newq} changed more than that quad: unexpected={_srt(q2 - before_q - {newq})} lost={_srt(before_q - q2)} graphs new={_srt(c2 - before_c - {key(tgt)})}",
                )
                if kind != "graph":
                    # the other views of the same state: quads() and membership per graph
                    viaq = {(key(s_), key(p_), key(o_), key(c_.identifier)) for s_, p_, o_, c_ in ConjunctiveGraph(store).quads((None, None, None))}
                    ctx.check(viaq == q2, "C13.write-after-reads", lambda: f"{where}: after adding {newq}, quads() lists unexpected={_srt(viaq - q2)} missing={_srt(q2 - viaq)}")
                    trips = {q[:3]: None for q in q2}
                    for ck in c2:
                        gview = Graph(store, T(list(ck)))
                        for (s_, p_, o_, c_) in q2:
                            tt_ = (T(list(s_)), T(list(p_)), T(list(o_)))
                            inn = tt_ in gview
                            ctx.check(inn == ((s_, p_, o_, ck) in q2), "C13.write-after-reads", lambda: f"{where}: after adding {newq}, ({s_}, {p_}, {o_}) in graph {ck} -> {inn}")
                before_q, before_c = q2, c2
                ctx.probe("write-after-reads")
                ctx.log(k, str(newq))
                continue
            if lazies:
                ctx.probe("lazy-reader-left-open-across-reads")
            ans = err = None
            faulted = False
            net0 = kernel.NET.calls
            try:
                ans, faulted = do_read(op)
            except (kernel.Violation, kernel.KnownStop):
                raise
            except Exception as e:
                err = e
                ctx.probe("read-raised")
            if kernel.NET.calls > net0:
                ctx.probe("network-used")
                if ctx.faults.get("net-refused", 0) > refused0[0]:
                    ctx.probe("network-refused")
                    faulted = True
                    refused0[0] = ctx.faults.get("net-refused", 0)
            conserve(where, op)
            if ans is not None and ans[0] == "lazy":
                lazies[op["r"]] = ans[1]
                ctx.log(k, f"lazy r{op['r']}")
                continue
            if op.get("twice") and not faulted and err is None:
                ans2 = err2 = None
                try:
                    ans2, _ = do_read(op, second=True)
                except (kernel.Violation, kernel.KnownStop):
                    raise
                except Exception as e:
                    err2 = e
                conserve(where + " (repeat)", op)
                if err2 is not None:
                    ctx.deviation("C13.repeat-differs", f"{where}: first call answered, the repeat raised {type(err2).__name__}: {err2}")
                else:
                    ctx.check(same(ans, ans2, op), "C13.repeat-differs", lambda: f"{where}: same read twice in a row gave different answers:\n 1: {str(ans)[:600]}\n 2: {str(ans2)[:600]}", opk=k, what=op.get("what"), fmt=op.get("format"))
            ctx.log(k, f"{op.get('format') or op.get('what') or op.get('q')} {'ERR ' + type(err).__name__ if err else 'ok'} faulted={faulted}")
            ctx.state(kind, k, op.get("format") or op.get("what") or op.get("q"), op.get("dest"), op.get("on"), repr(op.get("pat")), len(lazies), len(before_q), len(before_c), faulted)
    finally:
        import shutil

        shutil.rmtree(tmpdir, ignore_errors=True)


def simplify(trace):
    import copy

    for j in range(len(trace["config"]["quads"])):
        t = copy.deepcopy(trace)
        del t["config"]["quads"][j]
        yield t
    for f in ("list", "empty_graph", "remove_one"):
        if trace["config"][f]:
            t = copy.deepcopy(trace)
            t["config"][f] = False
            yield t
    for i, op in enumerate(trace["ops"]):
        if op.get("twice"):
            t = copy.deepcopy(trace)
            t["ops"][i]["twice"] = False
            yield t
        if op.get("dest") not in (None, "none"):
            t = copy.deepcopy(trace)
            t["ops"][i]["dest"] = "none"
            yield t
        if op.get("on") == "view":
            t = copy.deepcopy(trace)
            t["ops"][i]["on"] = "top"
            yield t
