"""C12 - parsing only adds; blank-node labels are scoped to one parse call.

History of parse() calls (mixed syntaxes) into one sink that already has content, documents built so
that labels collide on purpose; BNode id source (uuid4) behind a seeded seam; delivery through simulated
streams with short reads; faults: read error / EOF at byte k of document j.
"""
from __future__ import annotations

import io

from sim import iso, kernel, writers
from sim.rng import Stream
from sim.simio import SimNet, SimRaw, SimText, chunk_schedule
from sim.terms import EX, XSD, T, key, skey, u

ID = "C12"
LEVEL = "fault_enumeration"
TIERS = {"quick": {"runs": 8000, "wall_cap": 600}, "thorough": {"runs": 60000, "wall_cap": 3300}}
RULE = (
    "each evaluation is one seeded history of 1-5 parse() calls (N-Triples, N-Quads, Turtle, TriG, N3, RDF/XML, TriX, JSON-LD, HexTuples mixed) "
    "into one sink (Graph on Memory or SimpleMemory, Dataset with default_union off/on, ConjunctiveGraph, named Graph view on a dataset store) "
    "holding prior content; documents reuse blank-node labels between calls, repeat documents, use labels equal to ids already in the sink "
    "(incl. ids rdflib generated for the previous call) and share one label across named graphs; delivery as str/bytes, through SimRaw/SimText with short reads, or by SPARQL LOAD through the simulated network; an unrelated earlier parse may have asked "
    "for labels to be kept (preserve_bnode_ids / bnode_context); in fault runs one call's stream fails (OSError or EOF) at a byte offset - the thorough tier enumerates every offset of a "
    "sampled small document; after each call: old content literally preserved in every graph, new = old U f(doc) for an injective f into fresh "
    "blank nodes; distinct = distinct trace digest; non-trivial = at least 2 calls with a label collision of some kind"
)
REAL = ["all rdflib parsers (ntriples, nquads, notation3/turtle/trig, rdfxml, trix, jsonld, hext)", "rdflib.parser.create_input_source and stream wrappers", "rdflib.graph.Graph/Dataset/ConjunctiveGraph.parse", "Memory / SimpleMemory stores", "rdflib.term.BNode id generation (uuid4 replaced by a seeded generator)"]
STUB = ["file objects handed to parse(): SimRaw / SimText (seeded short reads, injected OSError / EOF)", "uuid4"]
ASSUMPTIONS = [
    "a simple literal and the same lexical form typed xsd:string are identified (RDF 1.1)",
    "where the document's default-graph triples land is taken from parsing the document alone into an empty sink of the same kind; label scoping and preservation are what is judged",
    "under an injected stream fault a call may raise or add a prefix of the document; for EOF faults the no-garbage clause is judged for line-based syntaxes only (a truncated Turtle/XML/JSON document can be a different legal prefix)",
]
PROBES = [
    "process-restarted-between-calls",
    "option-bnode_context-fresh-dict",
    "option-preserve_bnode_ids-false",
    "same-label-consecutive-docs",
    "same-doc-twice",
    "label-equals-existing-bnode-id",
    "label-equals-id-generated-by-previous-call",
    "label-shared-across-named-graphs-in-one-doc",
    "bnode-graph-name",
    "parse-through-named-view",
    "fault-fired",
    "fault-partial-addition",
    "dataset-default-graph-had-content",
]
KNOWN_PREDICATES = {
    "C12-hext-labels-verbatim": lambda f: f.get("fmt") == "hext" and f.get("verbatim_merge") is True,
    "C12-jsonld-labels-verbatim": lambda f: f.get("fmt") == "json-ld" and f.get("verbatim_merge") is True,
}

DEFAULT = "urn:x-rdflib:default"
TRIPLE_FORMATS = ["nt", "turtle", "n3", "xml", "json-ld", "hext"]
QUAD_FORMATS = ["nquads", "trig", "trix", "json-ld", "hext"]
LINE_FORMATS = {"nt", "nquads", "hext"}
LOADABLE = ("nt", "turtle", "n3", "xml")  # what SPARQL LOAD tries
SIDE_DOCS = {
    "xml-preserve": ("xml", '<rdf:RDF xmlns:rdf="http://www.w3.org/1999/02/22-rdf-syntax-ns#" xmlns:e="http://ex.org/"><rdf:Description rdf:nodeID="b0"><e:p rdf:nodeID="b1"/></rdf:Description></rdf:RDF>', {"preserve_bnode_ids": True}),
    "nt-context": ("nt", "_:b0 <http://ex.org/p> _:b1 .\n_:x <http://ex.org/p> _:b0 .\n", {"bnode_context": {}}),
    "nquads-context": ("nquads", "_:b0 <http://ex.org/p> _:b1 <http://ex.org/g1> .\n", {"bnode_context": {}}),
}
GENLIKE = "N0123456789abcdef0123456789abcdef"
PARSE_BUDGET = 3000000


def _srt(xs):
    return sorted(xs, key=repr)


def warm():
    import rdflib  # noqa
    from rdflib import plugin
    from rdflib.parser import Parser

    for f in ["nt", "nquads", "turtle", "n3", "trig", "xml", "trix", "json-ld", "hext"]:
        plugin.get(f, Parser)
    import rdflib.plugins.parsers.notation3  # noqa
    import rdflib.plugins.shared.jsonld.util  # noqa
    import rdflib._networking  # noqa
    import rdflib.plugins.sparql  # noqa
    import rdflib.plugins.sparql.update  # noqa

    rdflib.Graph().update("INSERT DATA { <urn:a> <urn:b> <urn:c> }")
    _snapshot_process_state()


# the parsers' process-wide state as it is in a freshly started process: module globals and class attributes of plain type
_PRISTINE = {}


def _snapshot_process_state():
    import sys
    import types

    for name, mod in list(sys.modules.items()):
        if not name.startswith("rdflib.plugins.parsers") or not isinstance(mod, types.ModuleType):
            continue
        for k, v in list(vars(mod).items()):
            if k.startswith("__"):
                continue
            if isinstance(v, (int, str, bool, type(None))):
                _PRISTINE[(name, None, k)] = v
            elif isinstance(v, type) and v.__module__ == name:
                for ck, cv in list(vars(v).items()):
                    if not ck.startswith("__") and isinstance(cv, (int, bool)) and not isinstance(cv, property):
                        _PRISTINE[(name, k, ck)] = cv


def _restart_process():
    """the program is stopped and started again: the store's content is durable and survives, whatever the parser modules kept
    in process-wide variables (id counters, the run's namespace) starts from scratch"""
    import sys

    for (name, cls, k), v in _PRISTINE.items():
        mod = sys.modules[name]
        setattr(mod if cls is None else getattr(mod, cls), k, v)


def _gen_doc(g, fmt, labels, quadfmt, gnames):
    subs = [u("s1"), u("s2")]
    preds = [u("p"), u("q"), ["u", writers.RDF + "type"]]
    objs = [u("o1"), ["l", "v", None, None], ["l", "", None, None], ["l", "7", None, XSD + "integer"], ["l", "hi", "en", None]]
    quads = []
    n = g.randint(1, 7)
    for _ in range(n):
        s = g.choice(subs + [["b", g.choice(labels)]] * 3)
        p = g.choice(preds)
        o = g.choice(objs + [["b", g.choice(labels)]] * 3)
        if p[1].endswith("type") and o[0] == "l":
            o = u("C")
        gr = None
        if quadfmt and g.random() < 0.6:
            gr = g.choice(gnames)
        q = [s, p, o, gr]
        if q not in quads:
            quads.append(q)
    return quads


def generate(seed, tier):
    g = Stream(seed, "gen")
    sink = g.choice(["graph-memory", "graph-memory", "graph-simple", "dataset-F", "dataset-T", "cg", "view", "graph-auditable", "cg-auditable"])
    labels = ["b0", "b1", "x", GENLIKE]
    ncalls = g.randint(1, 5)
    quadsink = sink in ("dataset-F", "dataset-T", "cg", "view", "cg-auditable")
    gnames = [u("g1"), u("g2"), ["b", "b0"], ["b", "gx"]]
    init = []
    for _ in range(g.randint(0, 6)):
        s = g.choice([u("s1"), ["b", "b0"], ["b", "b1"], ["b", GENLIKE], u("keep")])
        o = g.choice([u("o1"), ["b", "b0"], ["l", "old", None, None], ["b", "x"]])
        gr = g.choice([None, None] + gnames[:2] + [["b", "b0"]]) if quadsink else None
        init.append([s, u("p"), o, gr])
    calls = []
    prev = None
    fault_call = g.randrange(ncalls) if g.random() < 0.35 else None
    for i in range(ncalls):
        fmts = (QUAD_FORMATS + TRIPLE_FORMATS) if quadsink else [f for f in TRIPLE_FORMATS if not (sink == "graph-simple" and f in ("hext", "json-ld", "n3"))]
        if sink.endswith("auditable"):
            # the auditable wrapper is neither graph-aware nor formula-aware: parsers that need such a store refuse it
            fmts = [f for f in fmts if f not in ("n3", "hext", "nquads")]
        fmt = g.choice(fmts)
        quadfmt = fmt in writers.QUAD_FORMATS and quadsink and g.random() < 0.8
        lab = list(labels)
        if g.random() < 0.25:
            lab += ["n_1", "nb1"]  # two labels of one document that differ in one character only ('_' / 'b')
        if g.random() < 0.3:
            lab.append("@gen")  # resolved at execution: an id rdflib generated earlier in this run
        if prev is not None and g.random() < 0.3:
            quads, fmt2 = prev
            if fmt2 in fmts and g.random() < 0.5:
                fmt = fmt2
            if any(q[3] is not None for q in quads) and not (fmt in writers.QUAD_FORMATS and quadsink):
                quads = [q[:3] + [None] for q in quads]
            repeat = True
        else:
            quads = _gen_doc(g, fmt, lab, quadfmt, gnames)
            repeat = False
        mode = g.choice(["data-str", "data-bytes", "raw", "raw", "text"])
        if fmt in LOADABLE and g.random() < 0.25:
            mode = "load"  # SPARQL Update LOAD <url> through the simulated network
        call = {"uid": i + 1, "k": "parse", "format": fmt, "quads": quads, "mode": mode, "chunks": chunk_schedule(g), "repeat": repeat, "styled": g.random() < 0.5}
        if g.random() < 0.3:
            call["reseed"] = 12345
        if g.random() < 0.12:
            call["restart"] = True  # fault: the process is restarted before this call (only the store's content survives)
        if mode == "load" and sink in ("dataset-F", "dataset-T", "cg") and g.random() < 0.4:
            call["into"] = True  # LOAD <url> INTO GRAPH <g1>
        if g.random() < 0.15:
            # an earlier, unrelated parse call elsewhere in the program that asked for document labels to be kept
            call["side"] = g.choice(["xml-preserve", "nt-context", "nquads-context"])
        if fault_call == i:
            call["mode"] = g.choice(["raw", "text", "load"]) if fmt in LOADABLE else g.choice(["raw", "text"])
            call["fault"] = {"kind": g.choice(["error", "eof"]), "frac": g.random()}
        calls.append(call)
        prev = (quads, fmt)
    cfg = {"sink": sink, "init": init, "bufsiz": g.choice([1, 3, 7, 64, 2048, 2048])}
    if tier == "thorough" and g.random() < 0.08:
        cfg["enumerate"] = True
        cfg["enum_call"] = g.randrange(ncalls)
        for c in calls:
            c.pop("fault", None)
            c["quads"] = c["quads"][:3]
    return {"property": ID, "config": cfg, "ops": calls}


def nontrivial(trace, res):
    p = res.get("probes", {})
    return sum(p.get(k, 0) for k in PROBES[:5]) >= 2 or (len(trace["ops"]) >= 2 and p.get("calls-with-bnodes", 0) >= 2)


def _norm(k):
    if k[0] == "l" and k[3] == XSD + "string":
        return ("l", k[1], k[2], None)
    if k[0] == "?":
        # an N3 formula node (QuotedGraph): numbered by a process-wide counter, i.e. fresh per parse like a blank node
        return ("b", "formula:" + k[2])
    return k


def make_sink(kind):
    from rdflib import ConjunctiveGraph, Dataset, Graph
    from rdflib.plugins.stores.memory import Memory, SimpleMemory
    from rdflib.term import URIRef

    if kind == "graph-memory":
        g = Graph(Memory(), URIRef(EX + "thegraph"))
        return g, g, ("u", EX + "thegraph")
    if kind == "graph-simple":
        g = Graph(SimpleMemory(), URIRef(EX + "thegraph"))
        return g, g, ("u", EX + "thegraph")
    if kind in ("dataset-F", "dataset-T"):
        ds = Dataset(Memory(), default_union=kind.endswith("T"))
        return ds, ds, ("u", DEFAULT)
    if kind == "cg":
        cg = ConjunctiveGraph(Memory(), identifier=URIRef(EX + "cgdefault"))
        return cg, cg, ("u", EX + "cgdefault")
    if kind in ("graph-auditable", "cg-auditable"):
        # a store with transactions: what the sink holds when parse() is called is uncommitted work
        from rdflib.plugins.stores.auditable import AuditableStore

        if kind == "graph-auditable":
            g = Graph(AuditableStore(Memory()), URIRef(EX + "thegraph"))
            return g, g, ("u", EX + "thegraph")
        cg = ConjunctiveGraph(AuditableStore(Memory()), identifier=URIRef(EX + "cgdefault"))
        return cg, cg, ("u", EX + "cgdefault")
    if kind == "view":
        ds = Dataset(Memory())
        v = Graph(ds.store, URIRef(EX + "g1"))
        return v, ds, ("u", EX + "g1")
    raise ValueError(kind)


def observe(handle, kind, target):
    """all quads of the sink's store as keys, by independent traversal of the store"""
    out = set()
    if kind == "graph-simple":
        for t in handle:
            out.add(tuple(_norm(key(x)) for x in t) + (target,))
        return out
    st = handle.store
    for c in list(st.contexts()):
        ck = key(c.identifier)
        for (s, p, o), _ in st.triples((None, None, None), c):
            out.add((_norm(key(s)), _norm(key(p)), _norm(key(o)), ck))
    return out


def _place(quads, target, resolve):
    out = set()
    for s, p, o, g in quads:
        out.add((_norm(skey(resolve(s))), _norm(skey(resolve(p))), _norm(skey(resolve(o))), target if g is None else skey(resolve(g))))
    return out


def _deliver(call, doc, stats):
    mode = call["mode"]
    fault = None
    data = doc.encode("utf-8")
    if call.get("fault"):
        n = len(data) if mode == "raw" else len(doc)
        at = call["fault"].get("at")
        if at is None:
            at = int(call["fault"]["frac"] * n)
        fault = {"kind": call["fault"]["kind"], "at": min(at, max(n - 1, 0))}
    if mode == "data-str":
        return {"data": doc}, None
    if mode == "data-bytes":
        return {"data": data}, None
    if mode == "raw":
        s = SimRaw(data, call["chunks"], fault, stats=stats)
        return {"file": s}, s
    s = SimText(doc, call["chunks"], fault, stats=stats)
    return {"file": s}, s


def execute(trace, ctx):
    """thorough tier, `enumerate`: the history is re-run once per byte offset of the chosen call's document and per fault kind
    (fault enumeration inside a seeded history sample); otherwise the history is run once as generated"""
    cfg = trace["config"]
    if not cfg.get("enumerate"):
        return _execute(trace, ctx)
    _execute(trace, ctx)
    j = cfg["enum_call"] % len(trace["ops"])
    call = trace["ops"][j]
    try:
        doc = writers.WRITERS[call["format"]]([[x if not (x and x[0] == "b" and x[1] == "@gen") else ["b", "nogen"] for x in q] for q in call["quads"]] if call["format"] in writers.QUAD_FORMATS else [q[:3] + [None] for q in call["quads"]])
    except ValueError:
        return
    n = len(doc.encode("utf-8"))
    import copy as _copy

    for k in range(0, n, max(1, n // 160)):
        for kind in ("error", "eof"):
            t = _copy.deepcopy(trace)
            t["ops"] = t["ops"][: j + 1]
            t["ops"][j]["mode"] = "raw"
            t["ops"][j]["chunks"] = [max(1, n // 5)]
            t["ops"][j]["fault"] = {"kind": kind, "at": k}
            ctx.probe("enumerated-fault-offsets")
            _execute(t, ctx)


def _execute(trace, ctx):
    import warnings

    import rdflib.plugins.parsers.ntriples as ntmod
    from rdflib import Graph

    warnings.simplefilter("ignore")
    cfg = trace["config"]
    kind = cfg["sink"]
    ntmod.bufsiz = cfg.get("bufsiz", 2048)
    sink, top, target = make_sink(kind)
    for s, p, o, g in cfg["init"]:
        if kind.startswith("graph"):
            sink.add((T(s), T(p), T(o)))
        else:
            gid = T(g) if g is not None else T(["u", target[1]] if kind != "view" else ["u", DEFAULT])
            Graph(top.store, gid).add((T(s), T(p), T(o)))
    generated = []  # bnode ids created by rdflib during earlier calls
    net = SimNet({}, stats=ctx.faults)
    kernel.NET = kernel.refuse_network(net)

    def url_of(call):
        return "http://sim.example/doc%d" % call["uid"]

    def load_text(call):
        return f"LOAD <{url_of(call)}>" + (f" INTO GRAPH <{EX}g1>" if call.get("into") else "")

    def resolve(t):
        if t is not None and t[0] == "b" and t[1] == "@gen":
            return ["b", generated[0] if generated else "nogen"]
        return t

    old = observe(top, kind, target)
    if kind.startswith("dataset") and any(q[3] == ("u", DEFAULT) for q in old):
        ctx.probe("dataset-default-graph-had-content")
    prev_labels = set()
    prev_doc = None
    for call in trace["ops"]:
        fmt = call["format"]
        ctx.op(kind, f"parse-{fmt}")
        quads = [[resolve(x) for x in q] for q in call["quads"]]
        if not (fmt in writers.QUAD_FORMATS and kind not in ("graph-memory", "graph-simple", "graph-auditable")):
            quads = [q[:3] + [None] for q in quads]
        import random as _random

        style = _random.Random(call["uid"] * 7919 + len(quads) * 31 + len(cfg["init"])) if call.get("styled") else None
        try:
            if fmt == "xml" and style is not None and call["uid"] % 2:
                # (every other styled RDF/XML document in the abbreviated forms: rdf:nodeID on node and on property elements,
                # nested and label-free nodes)
                doc = writers.write_rdfxml_rich(quads, style)
            else:
                doc = writers.WRITERS[fmt](quads, style)
        except ValueError:
            continue
        if call.get("restart"):
            _restart_process()
            ctx.fault("process-restart")
            ctx.probe("process-restarted-between-calls")
        if call.get("reseed") is not None:
            # the host program re-seeds Python's global generator (a legal thing for it to do): ids minted for separate parse
            # calls must stay distinct all the same
            _random.seed(call["reseed"])
            ctx.probe("global-random-reseeded-between-calls")
        labels = {x[1] for q in quads for x in q if x is not None and x[0] == "b"}
        old_b = {k[1] for k in iso.bnodes(old)}
        if labels:
            ctx.probe("calls-with-bnodes")
        if labels & prev_labels:
            ctx.probe("same-label-consecutive-docs")
        if doc == prev_doc:
            ctx.probe("same-doc-twice")
        if labels & old_b:
            ctx.probe("label-equals-existing-bnode-id")
        if generated and generated[0] in labels:
            ctx.probe("label-equals-id-generated-by-previous-call")
        glabels = {}
        for q in quads:
            for x in q[:3]:
                if x[0] == "b":
                    glabels.setdefault(x[1], set()).add(repr(q[3]))
        if any(len(v) > 1 for v in glabels.values()):
            ctx.probe("label-shared-across-named-graphs-in-one-doc")
        if any(q[3] is not None and q[3][0] == "b" for q in quads):
            ctx.probe("bnode-graph-name")
        if kind == "view":
            ctx.probe("parse-through-named-view")
        prev_labels, prev_doc = labels, doc

        # reference: the document alone, into an empty sink of the same kind (fresh uuid stream position is irrelevant: compared up to bijection)
        D = _place(quads, target, lambda t: t)
        if True:  # the reference is the whole document parsed alone, fault or not
            s2, t2, _ = make_sink(kind)
            if call["mode"] == "load":
                net.routes[url_of(call)] = (200, {"Content-Type": "text/plain"}, doc.encode("utf-8"))
                s2.update(load_text(call))
            else:
                s2.parse(data=doc, format=fmt)
            alone = observe(t2, kind, target)
            alone_full = alone
            if fmt == "n3":
                # the quoted formula of our N3 spelling adds a statement about a formula node and quoted triples in the formula's
                # own context; neither belongs to the intended data
                keep = {q for q in alone if all(k[0] in ("u", "b", "l") for k in q[:3]) and q[0] != ("u", "http://ex.org/formula-holder") and q[0] != ("u", "http://ex.org/fa") and q[1] != ("u", "http://ex.org/fc")}
                alone_extra = alone - keep
                alone = keep
            # where a syntax puts triples written outside any named graph is not C12's business (TriX: an anonymous graph):
            # accept the nominal target or any single graph of the result, a blank-node-named one matched as a blank node
            cands = [D] + [_place(quads, ("b", "@target") if c[0] == "b" else c, lambda t: t) for c in _srt({q[3] for q in alone})]
            ok = None
            for cand in cands:
                if iso.isomorphic(cand, alone):
                    ok = cand
                    break
            ctx.check(ok is not None, "C12.document-alone", lambda: f"{fmt} document parsed into an empty {kind} sink is not the intended dataset: intended={_srt(D)} got={_srt(alone)}\n{doc}", fmt=fmt, sink=kind)
            if ok is not None:
                D = ok if fmt != "n3" else alone_full  # (N3: the reference for the merge check includes what the formula adds)
            if call["uid"] % 2 == 0:
                s3, t3, _ = make_sink(kind)
                s3.update(load_text(call)) if call["mode"] == "load" else s3.parse(data=doc, format=fmt)
                ctx.check(iso.isomorphic(alone_full, observe(t3, kind, target)), "C12.two-fresh-graphs", lambda: f"parsing the same {fmt} document into two fresh sinks gives non-isomorphic results")

        if call.get("side"):
            sf, sd, skw = SIDE_DOCS[call["side"]]
            Graph().parse(data=sd, format=sf, **skw) if sf != "nquads" else make_sink("dataset-F")[0].parse(data=sd, format=sf, **skw)
            ctx.probe("earlier-parse-with-label-keeping-option")
        err = None
        if call["mode"] == "load":
            ctx.probe("delivered-by-sparql-load")
            data = doc.encode("utf-8")
            streams = []
            if call.get("fault"):
                at = call["fault"].get("at")
                at = min(int(call["fault"]["frac"] * len(data)) if at is None else at, max(len(data) - 1, 0))
                flt = {"kind": call["fault"]["kind"], "at": at}

                def body(data=data, flt=flt):
                    s_ = SimRaw(data, call["chunks"], dict(flt), stats=ctx.faults)
                    streams.append(s_)
                    return s_

                net.routes[url_of(call)] = (200, {"Content-Type": "text/plain"}, body)
            else:
                net.routes[url_of(call)] = (200, {"Content-Type": "text/plain"}, data)
            try:
                with ctx.budget(PARSE_BUDGET * 4 if call.get("fault") else None, "parse"):
                    sink.update(load_text(call))
            except Exception as e:
                err = e
            fired = any(s_.fired for s_ in streams)
        else:
            kwargs, stream = _deliver(call, doc, ctx.faults)
            try:
                with ctx.budget(PARSE_BUDGET if call.get("fault") or call["mode"] in ("raw", "text") and call["chunks"][0] < 4 else None, "parse"):
                    # documented options spelled out with the value they have by default: nothing changes
                    opts = {}
                    if fmt in ("nt", "nquads") and call["uid"] % 3 == 0:
                        opts["bnode_context"] = {}  # a label map of the caller's, fresh for this call
                        ctx.probe("option-bnode_context-fresh-dict")
                    elif fmt in ("xml", "trix") and call["uid"] % 3 == 1:
                        opts["preserve_bnode_ids"] = False
                        ctx.probe("option-preserve_bnode_ids-false")
                    sink.parse(format=fmt, **kwargs, **opts)
            except Exception as e:
                err = e
            fired = stream is not None and stream.fired
        new = observe(top, kind, target)
        added = new - old
        lost = old - new
        ctx.check(not lost, "C12.existing-content-lost", lambda: f"parse #{call['uid']} ({fmt} into {kind}) removed or altered existing quads: {_srt(lost)}", fmt=fmt, sink=kind, lost_default_graph_only=all(q[3] == ("u", DEFAULT) for q in lost), target=target)
        fresh_forbidden = iso.bnodes(old)
        if not fired:
            if err is not None:
                ctx.deviation("C12.parse-raised", f"parse #{call['uid']} ({fmt}, {call['mode']}) raised {type(err).__name__}: {err}\n{doc}", fmt=fmt)
            else:
                m = iso.find_embedding(D, added | (new & {q for q in D if not iso.bnodes([q])}), onto=False, forbidden_images=fresh_forbidden)
                ok = m is not None
                if ok:
                    img = {tuple(m.get(k, k) for k in q) for q in D}
                    ok = img | old == new
                ctx.check(
                    ok,
                    "C12.rdf-merge",
                    lambda: f"parse #{call['uid']} ({fmt} into {kind}): result is not old U f(doc) with f injective into fresh blank nodes.\n doc quads={_srt(D)}\n added={_srt(added)}\n old bnodes={_srt(fresh_forbidden)}\n{doc}",
                    fmt=fmt,
                    sink=kind,
                    added_reuses_old_bnode=bool(iso.bnodes(added) & fresh_forbidden) or (not added and bool(iso.bnodes(D))),
                    # the result is exactly what one gets by using the document's labels verbatim as blank node ids
                    verbatim_merge=(D | old == new),
                )
        else:
            ctx.probe("fault-fired")
            if added:
                ctx.probe("fault-partial-addition")
            reused = iso.bnodes(added) & fresh_forbidden
            # a partial addition is allowed, garbage is not
            if call["fault"]["kind"] == "error" or fmt in LINE_FORMATS:
                m = iso.find_embedding(added, D | added_ground_ok(added, D), onto=False)
                ctx.check(m is not None, "C12.fault-garbage", lambda: f"parse #{call['uid']} ({fmt}) under fault {call['fault']}: added quads are not part of the document: added={_srt(added)} doc={_srt(D)}\n{doc}", fmt=fmt)
        for b in iso.bnodes(added):
            # (only ids that can be written as a label in a document; formula nodes cannot)
            if b[1] not in generated and b not in fresh_forbidden and b[1].isalnum() and b[1][0].isalpha():
                generated.append(b[1])
        generated.sort()
        ctx.log("parse", f"{fmt} {call['mode']} fault={call.get('fault', {}).get('kind')} fired={fired} err={type(err).__name__ if err else None} +{len(added)}")
        ctx.state(kind, fmt, call["mode"], repr(call.get("fault")), fired, type(err).__name__ if err else None, len(old), len(added), len(iso.bnodes(added)), len(labels & old_b))
        old = new


def added_ground_ok(added, D):
    return set()


def simplify(trace):
    import copy

    for i, call in enumerate(trace["ops"]):
        if len(call["quads"]) > 1:
            for j in range(len(call["quads"])):
                t = copy.deepcopy(trace)
                del t["ops"][i]["quads"][j]
                yield t
        if call["mode"] != "data-str" and not call.get("fault"):
            t = copy.deepcopy(trace)
            t["ops"][i]["mode"] = "data-str"
            yield t
        if call.get("fault"):
            t = copy.deepcopy(trace)
            del t["ops"][i]["fault"]
            yield t
    for j in range(len(trace["config"]["init"])):
        t = copy.deepcopy(trace)
        del t["config"]["init"][j]
        yield t
