"""C01 - a Graph is exactly the set its history implies; iterators survive mutation.

Tasks: one mutator client and up to 4 open lazy readers (generator objects obtained from the
real API) which the seeded scheduler resumes, closes or drops between mutations.
Oracle: Python set model, swept through all 8 pattern shapes after every mutator step;
"present at some moment since it began" window per reader.
"""
from __future__ import annotations

import itertools

from sim.rng import Stream
from sim.terms import EX, XSD, T, skey, tkey, u

ID = "C01"
LEVEL = "exploration"
TIERS = {"quick": {"runs": 4800, "wall_cap": 600}, "thorough": {"runs": 120000, "wall_cap": 3300}}
RULE = (
    "each evaluation is one seeded history (<=45 quick / <=80 thorough steps) of add/addN/remove(8 shapes)/set/+=/-= (operand: another graph, an iterable that may die midway, the graph itself, a second Graph object on the same graph, a graph with the same identifier in another store)/binary operators on a "
    "Graph over Memory or SimpleMemory, with up to 4 lazy readers (triples/iter/subjects/predicates/objects/slices) opened, stepped, closed "
    "and dropped by the scheduler between mutations (Memory only); after every mutation len, iteration, membership of every vocabulary "
    "triple and triples(pattern) for every pattern over the vocabulary are compared with a Python set; distinct = distinct trace digest; "
    "non-trivial = at least 5 mutations that changed the model and (on Memory) at least one reader resumed after a mutation"
)
REAL = ["rdflib.graph.Graph", "rdflib.plugins.stores.memory.Memory", "rdflib.plugins.stores.memory.SimpleMemory", "rdflib.store.Store"]
STUB = []
ASSUMPTIONS = [
    "a reader 'began' when the generator object was obtained (the weaker reading: Python starts the body at the first next())",
    "readers and self-aliased `g -= g` only on the default store (the statement promises mutation-safe iteration only there)",
    "addN keeps only quads whose context is the receiving graph object itself (rdflib compares identifiers by identity); equal-but-distinct graph handles are not generated",
    "nothing is demanded of a reader under mutation beyond: never raises, yields only matching triples present at some moment since it began",
]
PROBES = [
    "reader-yielded-since-removed",
    "reader-resumed-after-mutation",
    "reader-resumed-after-its-subject-vanished",
    "falsy-subject-bound",
    "falsy-predicate-bound",
    "falsy-object-bound",
    "remove-matched-2+",
    "iadd-self",
    "isub-self",
    "operand-same-identifier-other-store",
    "shared-triple-removed-from-one-graph",
    "first-triple-of-store-in-operand-graph",
    "binop",
    "source-died-mid-batch",
    "add-interrupted-by-subscriber",
]
KNOWN_PREDICATES = {}


def _srt(xs):
    return sorted(xs, key=repr)


NAMES = ["G", "H1", "H2"]


def warm():
    import rdflib  # noqa
    import rdflib.plugins.stores.memory  # noqa


def _vocab(g, awkward):
    subs = [u("a"), u("ab"), ["b", "b0"], ["l", "lit-subject", None, None]]
    preds = [u("p"), u("pq"), u("r")]
    objs = [u("a"), ["b", "b0"], ["l", "", None, None], ["l", "0", None, XSD + "integer"], ["l", "false", None, XSD + "boolean"], ["l", "", "en", None], ["l", "0", None, None], ["l", "x", None, None]]
    if awkward:
        subs.append(["u", ""])
        preds.append(["u", ""])
        subs.append(["l", "", None, None])
    ns, np_, no = g.randint(2, len(subs)), g.randint(1, len(preds)), g.randint(2, len(objs))
    g.shuffle(subs), g.shuffle(preds), g.shuffle(objs)
    return subs[:ns], preds[:np_], objs[:no]


def generate(seed, tier):
    g = Stream(seed, "gen")
    sched = Stream(seed, "sched")
    store = g.choice(["memory", "memory", "simple"])
    shared = store == "memory" and g.chance(0.6)  # operand graphs live in the same Memory store (other contexts)
    subs, preds, objs = _vocab(g, g.chance(0.3))
    nsteps = g.randint(4, 45 if tier == "quick" else 80)
    w = {
        "add": g.choice([2, 4, 8]),
        "addN": g.choice([0, 1, 2]),
        "remove": g.choice([1, 3, 6]),
        "set": g.choice([0, 1]),
        "iadd": g.choice([0, 1]),
        "isub": g.choice([0, 1]),
        "binop": g.choice([0, 1]),
        "hmut": g.choice([0, 1, 3]),
    }
    rw = {"open": g.choice([0, 1, 3]), "step": g.choice([1, 4, 8]), "drain": g.choice([0, 1]), "close": g.choice([0, 1]), "drop": g.choice([0, 1])}
    if store != "memory":
        rw = {k: 0 for k in rw}
    reader_share = g.choice([0.0, 0.3, 0.6]) if store == "memory" else 0.0
    veto_mode = store == "memory" and g.chance(0.25)
    model = {n: set() for n in NAMES}
    ops = []
    uid = 0
    nreaders = 0
    live = []

    def tri():
        return [g.pick(subs), g.pick(preds), g.pick(objs)]

    def present(name):
        m = _srt(model[name])
        return [list(map(list, t)) for t in m]

    live_pats = {}

    def under_reader(name="G"):
        """a triple of graph `name` that an open reader's pattern covers - whichever graph that reader iterates
        (mutations aimed at what is being iterated, also through another graph of the same store)"""
        cands = [t for t in sorted(model[name], key=repr) for p_ in live_pats.values() if all(p_[i] is None or tuple(p_[i]) == t[i] for i in range(3))]
        return [list(x) for x in g.pick(cands)] if cands else None

    def pat():
        t = tri()
        if model["G"] and g.chance(0.6):
            t = [list(x) for x in g.pick(_srt(model["G"]))]
        mask = g.randrange(8)
        return [t[i] if mask >> i & 1 else None for i in range(3)]

    def tt(t):
        return tuple(tuple(x) for x in t)

    # optional seeding of operand graph first (so the store's first-ever triple is in another context)
    for _ in range(nsteps):
        uid += 1
        if live and sched.chance(reader_share) or (reader_share and not live and sched.chance(reader_share * 0.5)):
            kind = sched.weighted(list(rw.items())) if live else "open"
            if kind == "open" and len(live) < 4 and rw["open"]:
                nreaders += 1
                rk = g.choice(["triples", "triples", "iter", "subjects", "predicates", "objects", "slice", "subject_objects", "contains"])
                op = {"uid": uid, "k": "open", "r": nreaders, "g": g.choice(["G", "G", "G", "H1"]) if shared else "G", "kind": rk, "pat": pat()}
                if rk == "iter":
                    op["pat"] = [None, None, None]
                live.append(nreaders)
                live_pats[nreaders] = op["pat"]
            elif kind in ("step", "drain", "close", "drop") and live:
                r = sched.pick(live)
                op = {"uid": uid, "k": kind, "r": r}
                if kind == "step":
                    op["n"] = sched.choice([1, 1, 2, 3])
                if kind in ("close", "drop", "drain"):
                    live.remove(r)
                    live_pats.pop(r, None)
            else:
                continue
            ops.append(op)
            continue
        kind = g.weighted(list(w.items()))
        op = {"uid": uid, "k": kind, "g": "G"}
        if kind == "hmut":
            op["g"] = g.choice(["H1", "H2"])
            kind = op["k"] = g.choice(["add", "add", "remove"])
        name = op["g"]
        if kind == "add":
            op["t"] = tri()
            if veto_mode and g.chance(0.25):
                op["veto"] = True  # fault: a TripleAddedEvent subscriber of the store raises during this add
            if live_pats and g.chance(0.3):
                # a triple that an open reader's pattern covers (often the reader iterates another graph of the same store)
                pt = g.pick(sorted(live_pats.values(), key=repr))
                op["t"] = [pt[i] if pt[i] is not None else op["t"][i] for i in range(3)]
            if g.chance(0.25):  # aim: a triple present in another graph (shared triple)
                others = [x for n in NAMES if n != name for x in present(n)]
                if others:
                    op["t"] = g.pick(others)
            if not op.get("veto"):
                model[name].add(tt(op["t"]))
        elif kind == "addN":
            op["q"] = []
            for _ in range(g.randint(1, 5)):
                op["q"].append(tri() + [g.choice([name, name, name, "H1", "H2", "G", "@twin"])])
            if g.chance(0.3):
                op["q"].append(list(op["q"][0]))
            for q in op["q"]:
                # "@twin": another Graph object on the same store with an equal identifier - the same graph
                if q[3] in (name, "@twin"):
                    model[name].add(tt(q[:3]))
        elif kind == "remove" and live_pats and g.chance(0.5) and under_reader(name) is not None:
            op["t"] = under_reader(name)
            model[name] = {t for t in model[name] if t != tuple(tuple(x) for x in op["t"])}
        elif kind == "remove":
            op["t"] = pat() if name == "G" else [None if g.chance(0.3) else x for x in (g.pick(present(name)) if model[name] else tri())]
            model[name] = {t for t in model[name] if not all(op["t"][i] is None or tuple(op["t"][i]) == t[i] for i in range(3))}
        elif kind == "set":
            op["t"] = tri()
            if model[name] and g.chance(0.5):
                e = g.pick(present(name))
                op["t"] = [e[0], e[1], g.pick(objs)]
            model[name] = {t for t in model[name] if not (t[0] == tuple(op["t"][0]) and t[1] == tuple(op["t"][1]))}
            model[name].add(tt(op["t"]))
        elif kind in ("iadd", "isub"):
            ch = g.choice(["graph", "graph", "list", "self", "twin", "foreign"])
            if ch == "foreign":
                # a graph with the same identifier as G that lives in another store (it is another graph)
                lst = [tri() for _ in range(g.randint(0, 2))] + [g.pick(present("G")) for _ in range(g.randint(0, 2)) if model["G"]]
                op["other"] = {"foreign": lst}
                oset = {tt(t) for t in lst}
            elif ch == "twin":
                op["other"] = "@twin"  # a second Graph object on G's store with G's identifier
                if store != "memory" and g.chance(0.5):
                    op["other"] = "@alias"  # (a store without contexts: a handle with any other identifier shows the same triples)
                oset = set(model["G"])
            elif ch == "graph":
                op["other"] = g.choice(["H1", "H2"])
                oset = set(model[op["other"]])
            elif ch == "self":
                op["other"] = "G"
                oset = set(model["G"])
            else:
                lst = [tri() for _ in range(g.randint(0, 4))] + ([g.pick(present("G"))] if model["G"] else [])
                op["other"] = {"list": lst}
                if lst and g.chance(0.3):
                    # fault: the iterable raises after yielding k elements (a source that dies mid-way)
                    op["other"]["fail_after"] = g.randrange(len(lst) + 1)
                    lst = lst[: op["other"]["fail_after"]]
                oset = {tt(t) for t in lst}
            if kind == "iadd":
                model["G"] |= oset
            else:
                model["G"] -= oset
        elif kind == "binop":
            op["op"] = g.choice(["+", "-", "*", "^", "|", "&"])
            op["a"] = g.choice(NAMES)
            op["b"] = g.choice(NAMES)
        ops.append(op)
    return {"property": ID, "config": {"store": store, "shared": shared, "vocab": [subs, preds, objs], "veto_mode": veto_mode}, "ops": ops}


def nontrivial(trace, res):
    p = res.get("probes", {})
    if p.get("model-changed", 0) < 5:
        return False
    return trace["config"]["store"] != "memory" or p.get("reader-resumed-after-mutation", 0) > 0 or not any(o["k"] == "open" for o in trace["ops"])


def _falsy(spec):
    return spec is not None and ((spec[0] == "u" and spec[1] == "") or (spec[0] == "l" and (spec[1] == "" or (spec[1] in ("0", "false", "0.0") and len(spec) > 3 and spec[3]))))


def execute(trace, ctx):
    from rdflib import Graph
    from rdflib.plugins.stores.memory import Memory, SimpleMemory
    from rdflib.term import URIRef

    cfg = trace["config"]
    subs, preds, objs = cfg["vocab"]
    mem = cfg["store"] == "memory"
    if mem:
        st = Memory()
        gs = {"G": Graph(st, URIRef(EX + "G"))}
        for n in ("H1", "H2"):
            gs[n] = Graph(st, URIRef(EX + n)) if cfg["shared"] else Graph(Memory(), URIRef(EX + n))
    else:
        gs = {n: Graph(SimpleMemory(), URIRef(EX + n)) for n in NAMES}
    model = {n: set() for n in NAMES}

    class SubscriberVeto(Exception):
        pass

    armed = [False]
    if mem and cfg.get("veto_mode"):
        from rdflib.store import TripleAddedEvent

        def on_add(event):
            if armed[0]:
                armed[0] = False
                ctx.fault("subscriber-raised")
                raise SubscriberVeto()

        st.dispatcher.subscribe(TripleAddedEvent, on_add)
    # all vocabulary triples and patterns (fresh term objects are built per call)
    vt = [(s, p, o) for s in subs for p in preds for o in objs]
    vpat = [(s, p, o) for s in subs + [None] for p in preds + [None] for o in objs + [None]]
    store_first = [True]

    def match(pat, t):
        return all(pat[i] is None or skey(pat[i]) == t[i] for i in range(3))

    def sweep(name, full, where):
        g = gs[name]
        m = model[name]
        lst = [tkey(t) for t in g]
        ctx.check(len(lst) == len(set(lst)), "C01.iteration-duplicates", lambda: f"{where}: iter({name}) yields duplicates: {lst}")
        ctx.check(set(lst) == m, "C01.iteration", lambda: f"{where}: iter({name}) missing={_srt(m - set(lst))} extra={_srt(set(lst) - m)}")
        n = len(g)
        ctx.check(n == len(m), "C01.len", lambda: f"{where}: len({name})={n}, model has {len(m)}")
        if not full:
            return
        for t in vt:
            k = tuple(skey(x) for x in t)
            got = (T(t[0]), T(t[1]), T(t[2])) in g
            ctx.check(got == (k in m), "C01.membership", lambda: f"{where}: {t} in {name} -> {got}, model says {k in m}")
        if len(preds) >= 2:
            # triples_choices: a list in one slot means the union over its members
            for s_ in subs[:2] + [None]:
                for o_ in objs[:2] + [None]:
                    got = {tkey(t) for t in g.triples_choices((T(s_), [T(preds[0]), T(preds[1])], T(o_)))}
                    exp = {t for t in m if match((s_, preds[0], o_), t) or match((s_, preds[1], o_), t)}
                    ctx.check(got == exp, "C01.triples-choices", lambda: f"{where}: triples_choices(({s_}, [{preds[0]}, {preds[1]}], {o_})) on {name}: missing={_srt(exp - got)} extra={_srt(got - exp)}")
        for pat in vpat:
            res = [tkey(t) for t in g.triples((T(pat[0]), T(pat[1]), T(pat[2])))]
            exp = {t for t in m if match(pat, t)}
            if len(res) != len(set(res)):
                ctx.deviation("C01.pattern-duplicates", f"{where}: triples({pat}) on {name} yields duplicates {res}")
            ctx.check(set(res) == exp, "C01.pattern", lambda: f"{where}: triples({pat}) on {name}: missing={_srt(exp - set(res))} extra={_srt(set(res) - exp)}", pattern=pat)

    readers = {}  # r -> dict(gen, g, kind, pat, window, opened_seq, mut_at_open)
    mutations = [0]

    def note_added(name, tset):
        for r in readers.values():
            if r["g"] == name:
                r["window"] |= tset

    def proj(kind, pat, t):
        if kind in ("triples", "iter"):
            return t
        if kind == "subjects":
            return t[0]
        if kind == "predicates":
            return t[1]
        if kind == "objects":
            return t[2]
        if kind == "subject_objects":
            return (t[0], t[2])
        if kind == "slice":
            free = [i for i in range(3) if pat[i] is None]
            if len(free) == 3:
                return t
            if len(free) == 1:
                return t[free[0]]
            return tuple(t[i] for i in free)
        raise ValueError(kind)

    def open_reader(op):
        g = gs[op["g"]]
        pat = op["pat"]
        kind = op["kind"]
        s, p, o = T(pat[0]), T(pat[1]), T(pat[2])
        if kind == "triples":
            gen = g.triples((s, p, o))
        elif kind == "iter":
            gen = iter(g)
        elif kind == "subjects":
            pat = [None, pat[1], pat[2]]
            gen = g.subjects(p, o)
        elif kind == "predicates":
            pat = [pat[0], None, pat[2]]
            gen = g.predicates(s, o)
        elif kind == "objects":
            pat = [pat[0], pat[1], None]
            gen = g.objects(s, p)
        elif kind == "subject_objects":
            pat = [None, pat[1], None]
            gen = g.subject_objects(p)
        elif kind == "slice":
            if pat[0] is not None and pat[0][0] == "l":
                pat = [None, pat[1], pat[2]]
                s = None
            if all(x is not None for x in (s, p, o)):
                # g[s:p:o] with everything bound echoes its argument without consulting the graph; not a read of the graph
                kind = "triples"
                gen = g.triples((s, p, o))
            else:
                gen = g[s:p:o]
        elif kind == "contains":
            gen = None
        else:
            raise ValueError(kind)
        return {"gen": gen, "g": op["g"], "kind": kind, "pat": pat, "window": set(model[op["g"]]), "mut": mutations[0], "n": 0}

    def step_reader(rid, n):
        r = readers.get(rid)
        if r is None:
            return
        if r["kind"] == "contains":
            # membership is a one-step reader: answered against the *current* model
            pat = r["pat"]
            got = (T(pat[0]), T(pat[1]), T(pat[2])) in gs[r["g"]]
            exp = any(match(pat, t) for t in model[r["g"]])
            ctx.check(got == exp, "C01.membership-pattern", lambda: f"{pat} in {r['g']} -> {got}, model {exp}")
            del readers[rid]
            return
        for _ in range(n):
            if mutations[0] > r["mut"]:
                ctx.probe("reader-resumed-after-mutation")
                if r["pat"][0] is not None and not any(t[0] == skey(r["pat"][0]) for t in model[r["g"]]):
                    ctx.probe("reader-resumed-after-its-subject-vanished")
            try:
                item = next(r["gen"])
            except StopIteration:
                del readers[rid]
                ctx.log("reader-end", f"r{rid} after {r['n']}")
                return
            except Exception as e:  # the statement: never raises
                ctx.deviation("C01.reader-raised", f"reader r{rid} {r['kind']}{r['pat']} raised {type(e).__name__}: {e} when resumed after {mutations[0] - r['mut']} mutations")
                del readers[rid]
                return
            r["n"] += 1
            k = tkey(item) if isinstance(item, tuple) else tkey((item,))[0]
            allowed = {proj(r["kind"], r["pat"], t) for t in r["window"] if match(r["pat"], t)}
            ctx.check(k in allowed, "C01.reader-window", lambda: f"reader r{rid} {r['kind']}{r['pat']} on {r['g']} yielded {k}, which matches no triple present since it was opened (window={_srt(r['window'])})")
            now = {proj(r["kind"], r["pat"], t) for t in model[r["g"]] if match(r["pat"], t)}
            if k not in now:
                ctx.probe("reader-yielded-since-removed")
            ctx.log("reader-yield", f"r{rid} {k}")

    class SourceDied(Exception):
        pass

    def twin_of(g):
        return Graph(g.store, URIRef(str(g.identifier)))

    def operand(spec):
        if isinstance(spec, dict):
            lst = spec["list"]
            if spec.get("fail_after") is not None:
                k = spec["fail_after"]

                def dying():
                    for a, b, c in lst[:k]:
                        yield (T(a), T(b), T(c))
                    ctx.fault("iterable-raised")
                    raise SourceDied()

                return dying(), {tuple(skey(x) for x in t) for t in lst[:k]}
            return [(T(a), T(b), T(c)) for a, b, c in lst], {tuple(skey(x) for x in t) for t in lst}
        return gs[spec], set(model[spec])

    for n in NAMES:
        sweep(n, n == "G", "initial")
    for op in trace["ops"]:
        k = op["k"]
        ctx.op("reader" if k in ("open", "step", "drain", "close", "drop") else "mutator", k)
        if k == "open":
            if not mem:
                continue
            readers[op["r"]] = open_reader(op)
            ctx.log("open", f"r{op['r']} {op['kind']} {op['pat']}")
            continue
        if k == "step":
            step_reader(op["r"], op.get("n", 1))
            continue
        if k == "drain":
            step_reader(op["r"], 10**6)
            continue
        if k == "close":
            r = readers.pop(op["r"], None)
            if r is not None and r["gen"] is not None:
                r["gen"].close()
            ctx.log("close", f"r{op['r']}")
            continue
        if k == "drop":
            readers.pop(op["r"], None)
            ctx.log("drop", f"r{op['r']}")
            continue
        name = op.get("g", "G")
        g = gs[name]
        before = {n: set(model[n]) for n in NAMES}
        if k == "add":
            t = op["t"]
            for i, nm in enumerate(("subject", "predicate", "object")):
                if _falsy(t[i]):
                    ctx.probe(f"falsy-{nm}-bound")
            if store_first[0] and name != "G" and cfg.get("shared"):
                ctx.probe("first-triple-of-store-in-operand-graph")
            store_first[0] = False
            kk = tuple(skey(x) for x in t)
            if op.get("veto") and mem and cfg.get("veto_mode") and (name == "G" or cfg.get("shared")):
                # a callee raises in the middle of the call: the add may or may not have happened, but whatever the graph
                # now says through membership, every other view (len, iteration, all pattern shapes) must say the same
                armed[0] = True
                try:
                    g.add((T(t[0]), T(t[1]), T(t[2])))
                except SubscriberVeto:
                    ctx.probe("add-interrupted-by-subscriber")
                armed[0] = False
                if (T(t[0]), T(t[1]), T(t[2])) in g:
                    model[name].add(kk)
                    note_added(name, {kk})
            else:
                g.add((T(t[0]), T(t[1]), T(t[2])))
                model[name].add(kk)
                note_added(name, {kk})
        elif k == "addN":
            store_first[0] = False
            quads = [(T(s), T(p), T(o), gs[c] if c != "@twin" else twin_of(g)) for s, p, o, c in op["q"]]
            g.addN(quads)
            for s, p, o, c in op["q"]:
                if c in (name, "@twin"):
                    kk = (skey(s), skey(p), skey(o))
                    model[name].add(kk)
                    note_added(name, {kk})
        elif k == "remove":
            t = op["t"]
            hit = {x for x in model[name] if match(t, x)}
            if len(hit) >= 2:
                ctx.probe("remove-matched-2+")
            if any(x in model[n] for x in hit for n in NAMES if n != name) and cfg.get("shared"):
                ctx.probe("shared-triple-removed-from-one-graph")
            for i, nm in enumerate(("subject", "predicate", "object")):
                if _falsy(t[i]):
                    ctx.probe(f"falsy-{nm}-bound")
            g.remove((T(t[0]), T(t[1]), T(t[2])))
            model[name] -= hit
        elif k == "set":
            t = op["t"]
            store_first[0] = False
            g.set((T(t[0]), T(t[1]), T(t[2])))
            model[name] = {x for x in model[name] if not (x[0] == skey(t[0]) and x[1] == skey(t[1]))}
            kk = tuple(skey(x) for x in t)
            model[name].add(kk)
            note_added(name, {kk})
        elif k in ("iadd", "isub"):
            if op["other"] in ("G", "@twin", "@alias"):
                ctx.probe("iadd-self" if k == "iadd" else "isub-self")
                oth, oset = (gs["G"] if op["other"] == "G" else twin_of(gs["G"]) if op["other"] == "@twin" else Graph(gs["G"].store, URIRef(EX + "another-name"))), set(model["G"])
            elif isinstance(op["other"], dict) and "foreign" in op["other"]:
                ctx.probe("operand-same-identifier-other-store")
                oth = Graph(Memory(), URIRef(str(gs["G"].identifier)))
                for a, b, c in op["other"]["foreign"]:
                    oth.add((T(a), T(b), T(c)))
                oset = {tuple(skey(x) for x in t) for t in op["other"]["foreign"]}
            else:
                oth, oset = operand(op["other"])
            g0 = gs["G"]
            try:
                if k == "iadd":
                    store_first[0] = False
                    g0 += oth
                else:
                    g0 -= oth
            except SourceDied:
                ctx.probe("source-died-mid-batch")  # what was handed over before the failure has been applied, nothing else
            if k == "iadd":
                model["G"] |= oset
                note_added("G", oset)
            else:
                model["G"] -= oset
            ctx.check(g0 is gs["G"], "C01.inplace-identity", "in-place operator returned another object")
        elif k == "binop":
            ctx.probe("binop")
            a, b = gs[op["a"]], gs[op["b"]]
            ma, mb = model[op["a"]], model[op["b"]]
            o = op["op"]
            if o in "+|":
                res, exp = (a + b if o == "+" else a | b), ma | mb
            elif o == "-":
                res, exp = a - b, ma - mb
            elif o in "*&":
                res, exp = (a * b if o == "*" else a & b), ma & mb
            else:
                res, exp = a ^ b, ma ^ mb
            lst = [tkey(t) for t in res]
            ctx.check(len(lst) == len(set(lst)) and set(lst) == exp, "C01.binop", lambda: f"{op['a']} {o} {op['b']}: got {_srt(lst)} expected {_srt(exp)}")
            ctx.check(len(res) == len(exp), "C01.binop-len", lambda: f"len({op['a']} {o} {op['b']}) = {len(res)} expected {len(exp)}")
            # the result is a graph of its own: what is added to it later shows in neither operand
            from rdflib import URIRef as _U

            marker = (_U("http://ex.org/result-only"), _U("http://ex.org/p"), _U("http://ex.org/result-only"))
            res.add(marker)
            ctx.check(marker not in a and marker not in b, "C01.binop-result-aliases-operand", lambda: f"{op['a']} {o} {op['b']}: a triple added to the result afterwards shows in an operand")
            res.remove(marker)
        else:
            raise ValueError(k)
        if model != before:
            ctx.probe("model-changed")
        mutations[0] += 1
        ctx.log(k, f"{name} {op.get('t') or op.get('other') or op.get('op')} |G|={len(model['G'])}")
        ctx.state(_srt(model["G"]), _srt(model["H1"]), _srt(model["H2"]), len(readers))
        for n in NAMES:
            sweep(n, n == "G" or n == name, f"after op uid={op['uid']} {k}")


def simplify(trace):
    import copy

    ops = trace["ops"]
    for i, op in enumerate(ops):
        if op["k"] == "addN" and len(op["q"]) > 1:
            for j in range(len(op["q"])):
                t = copy.deepcopy(trace)
                del t["ops"][i]["q"][j]
                yield t
        if op["k"] == "step" and op.get("n", 1) > 1:
            t = copy.deepcopy(trace)
            t["ops"][i]["n"] = 1
            yield t
        if op["k"] in ("iadd", "isub") and isinstance(op["other"], dict) and len(op["other"]["list"]) > 1:
            for j in range(len(op["other"]["list"])):
                t = copy.deepcopy(trace)
                del t["ops"][i]["other"]["list"][j]
                yield t
    if trace["config"].get("shared"):
        t = copy.deepcopy(trace)
        t["config"]["shared"] = False
        yield t
