"""C17 - prefix bindings stay a consistent two-way map and compact IRIs expand back.

Clients: 1-3 Graph handles on one store, each with its own memoising NamespaceManager
(created at scheduler-chosen moments).  History: bind/qname/curie/n3/parse/serialise.
Oracle: invariants after every step through every handle (no model of the binding policy).
"""
from __future__ import annotations

from sim.rng import Stream
from sim.terms import T, u

ID = "C17"
LEVEL = "exploration"
TIERS = {"quick": {"runs": 8000, "wall_cap": 600}, "thorough": {"runs": 120000, "wall_cap": 3300}}
RULE = (
    "each evaluation is one seeded history (<=30 quick / <=60 thorough steps) of bind(prefix, ns, override, replace) / qname / curie / "
    "compute_qname / qname_strict / normalizeUri / URIRef.n3 / expand_curie / Turtle parse declaring prefixes / Turtle+RDF/XML serialise, "
    "issued through 1-3 Graph handles sharing one Memory or SimpleMemory store (each handle has its own NamespaceManager and caches, "
    "bind_namespaces none/core/rdflib, created at scheduler-chosen moments; binds aimed at namespaces of IRIs asked about earlier, questions repeated, the empty namespace in the pool); invariants after every step: namespaces() lists each prefix "
    "and each namespace once, store.prefix/store.namespace are inverse on exactly that list, every compact form returned uses a prefix "
    "bound at that moment and expands back to the IRI; distinct = distinct trace digest; non-trivial = at least 2 binds that changed the "
    "map and at least 2 compact-form answers checked"
)
REAL = ["rdflib.namespace.NamespaceManager", "rdflib.plugins.stores.memory.Memory.bind/SimpleMemory.bind", "rdflib.graph.Graph.bind/parse/serialize", "Turtle parser, Turtle and RDF/XML serializers"]
STUB = []
ASSUMPTIONS = [
    "a compact-form call may raise (unsplittable IRI, generate=False without prefix); if it answers, the answer must be valid now",
    "answers in <iri> form use no prefix and are accepted",
]
PROBES = ["bindings-in-sparql-client-store", "qname-after-rebind-of-its-namespace", "longer-namespace-bound-after-qname", "replace-on-taken-prefix", "override-false-on-bound-namespace", "second-handle-qname-after-first-handle-bind", "generated-prefix", "empty-prefix-bound", "prefix-collision-numbered", "listing-abandoned-half-way"]
KNOWN_PREDICATES = {}

NSS = ["http://ex.org/", "http://ex.org/a", "http://ex.org/a/", "http://ex.org/a#", "http://ex.org/a/b#", "http://ex.org/ab", "urn:x:", "http://other.org/v#"]
PREFIXES = ["", "a", "b", "ns1", "a1", "ex", "default1", "ns2"]
LOCALS = ["x", "sub/y", "z1", "", "b#c", "_u", "1n"]


def _srt(xs):
    return sorted(xs, key=repr)


def warm():
    import rdflib  # noqa
    import rdflib.plugins.parsers.notation3  # noqa
    import rdflib.plugins.serializers.rdfxml  # noqa
    import rdflib.plugins.serializers.turtle  # noqa


def generate(seed, tier):
    g = Stream(seed, "gen")
    sched = Stream(seed, "sched")
    nss = list(NSS)
    g.shuffle(nss)
    nss = nss[: g.randint(2, 6)]
    prefixes = list(PREFIXES)
    g.shuffle(prefixes)
    prefixes = prefixes[: g.randint(2, 6)]
    iris = sorted({ns + loc for ns in nss for loc in g.sample(LOCALS, 3)} | {nss[0] + "1n", nss[-1] + "2024report"})[:20]
    # namespaces that only the *strict* split of such IRIs produces (local name must start with a letter): bindable too
    nss = nss + [nss[0] + "1", nss[-1] + "2024"]
    if g.chance(0.15):
        nss.append("")  # the empty namespace (what xmlns="" in RDF/XML binds)
    nh = g.randint(1, 3)
    cfg = {"store": g.choice(["memory", "memory", "simple", "auditable-memory", "auditable-simple", "sparql"]), "handles": [g.choice(["none", "core", "rdflib", "core"]) for _ in range(nh)], "iris": iris, "nss": nss}
    w = {"bind": g.choice([2, 4, 6]), "qname": g.choice([2, 4, 8]), "parse": g.choice([0, 1]), "serialize": g.choice([0, 1]), "expand": 1, "reset": g.choice([0, 0, 1]), "storebind": g.choice([0, 0, 1]), "peek": g.choice([0, 1, 2])}
    nsteps = g.randint(3, 30 if tier == "quick" else 60)
    ops = []
    asked = []
    for i in range(nsteps):
        h = sched.randrange(nh)
        kind = g.weighted(list(w.items()))
        op = {"uid": i + 1, "h": h, "k": kind}
        if kind == "bind":
            op["prefix"] = g.pick(prefixes)
            op["ns"] = g.pick(nss)
            op["override"] = g.chance(0.6)
            op["replace"] = g.chance(0.35)
            op["as"] = g.choice(["URIRef", "URIRef", "str", "Namespace", "subclass"])
            if asked and g.chance(0.35):
                # aim: a namespace that an IRI asked about earlier falls into (its memoised answer must not survive the change)
                _, iri0 = g.pick(asked)
                cands = [n for n in nss if n and iri0.startswith(n)]
                if cands:
                    op["ns"] = g.pick(cands)
                    op["override"] = True
        elif kind == "qname":
            op["k"] = g.choice(["qname", "qname", "curie", "curie-nogen", "compute_qname", "compute_qname-nogen", "qname_strict", "qname_strict", "normalizeUri", "n3", "n3"])
            op["iri"] = g.pick(iris)
            if asked and g.chance(0.4):
                op["k"], op["iri"] = g.pick(asked)  # the same question again, after whatever happened in between
            asked.append((op["k"], op["iri"]))
        elif kind == "parse":
            op["decl"] = [[g.pick(prefixes), g.pick(nss)] for _ in range(g.randint(1, 3))]
            op["style"] = g.choice(["@prefix", "PREFIX"])
        elif kind == "serialize":
            op["format"] = g.choice(["turtle", "xml", "pretty-xml", "longturtle", "n3", "trig"])
            op["triples"] = [[g.pick(iris), g.pick(iris), g.pick(iris)] for _ in range(g.randint(1, 3))]
        elif kind == "expand":
            op["prefix"] = g.pick(prefixes)
            op["local"] = g.pick(LOCALS)
        elif kind == "peek":
            # a listing / membership read that stops early (an iterator closed half-way)
            op["how"] = g.choice(["contains", "next-close", "break-after-2"])
            op["iri"] = g.pick(iris)
        elif kind == "storebind":
            op["prefix"] = g.pick(prefixes)
            op["ns"] = g.pick(nss)
            op["override"] = g.chance(0.5)
        ops.append(op)
    return {"property": ID, "config": cfg, "ops": ops}


def nontrivial(trace, res):
    p = res.get("probes", {})
    return p.get("bind-changed-map", 0) >= 2 and p.get("compact-answers", 0) >= 2


def execute(trace, ctx):
    from rdflib import Graph
    from rdflib.plugins.stores.memory import Memory, SimpleMemory
    from rdflib.namespace import Namespace
    from rdflib.term import URIRef

    class _IriSubclass(URIRef):
        """an IRI of a more specific kind (as rdflib's own Genid / RDFLibGenid are)"""

    cfg = trace["config"]
    store = Memory() if cfg["store"] in ("memory", "auditable-memory") else SimpleMemory()
    if cfg["store"] == "sparql":
        # the client store of a SPARQL endpoint keeps the bindings locally (nothing here contacts the endpoint: documents that are
        # parsed only declare prefixes, nothing is serialised)
        from rdflib.plugins.stores.sparqlstore import SPARQLStore

        store = SPARQLStore("http://sim.invalid/sparql")
        ctx.probe("bindings-in-sparql-client-store")
    if cfg["store"].startswith("auditable"):
        # the bindings behind a wrapper that passes them through
        from rdflib.plugins.stores.auditable import AuditableStore

        store = AuditableStore(store)
        ctx.probe("bindings-behind-auditable-wrapper")
    handles = {}
    last_bind_by = [None]
    cached = {}  # (h, iri) -> namespace used in an earlier answer of handle h

    def handle(h):
        if h not in handles:
            # the manager is created (and binds its default namespaces into the shared store) now
            handles[h] = Graph(store, URIRef("http://ex.org/graph%d" % h), bind_namespaces=cfg["handles"][h])
            handles[h].namespace_manager
            ctx.log("handle", f"{h} {cfg['handles'][h]}")
        return handles[h]

    def invariants(where):
        for h, g in list(handles.items()):
            lst = list(g.namespaces())
            ps = [p for p, n in lst]
            ns = [str(n) for p, n in lst]
            ctx.check(len(ps) == len(set(ps)), "C17.prefix-listed-twice", lambda: f"{where}: namespaces() via handle {h} lists a prefix twice: {_srt(lst)}")
            ctx.check(len(ns) == len(set(ns)), "C17.namespace-listed-twice", lambda: f"{where}: namespaces() via handle {h} lists a namespace under two prefixes: {_srt((p, str(n)) for p, n in lst)}", listing=_srt((p, str(n)) for p, n in lst))
            raw = {(p, str(n)) for p, n in store.namespaces()}
            ctx.check({(p, str(n)) for p, n in lst} == raw, "C17.listing-incomplete", lambda: f"{where}: namespaces() via handle {h} lists {_srt((p, str(n)) for p, n in lst)}, the store holds {_srt(raw)}")
            for p, n in lst:
                back = store.namespace(p)
                ctx.check(back is not None and str(back) == str(n), "C17.lookup-by-prefix", lambda: f"{where}: namespaces() says {p!r}->{n}, store.namespace({p!r}) = {back}")
                fwd = store.prefix(URIRef(str(n)))
                ctx.check(fwd == p, "C17.lookup-by-namespace", lambda: f"{where}: namespaces() says {p!r}->{n}, store.prefix({n}) = {fwd!r}", listing=_srt((p, str(n)) for p, n in lst))
        return {(p, str(n)) for p, n in store.namespaces()}

    def check_compact(h, iri, pfx, local, what):
        g = handles[h]
        ctx.probe("compact-answers")
        bound = store.namespace(pfx)
        ctx.check(bound is not None, "C17.compact-uses-unbound-prefix", lambda: f"{what}({iri}) via handle {h} answered with prefix {pfx!r} which is not bound now; bindings={_srt((p, str(n)) for p, n in store.namespaces())}", h=h, iri=iri, prefix=pfx)
        if bound is None:
            return
        ctx.check(str(bound) + local == iri, "C17.compact-expands-elsewhere", lambda: f"{what}({iri}) via handle {h} answered {pfx}:{local}, which expands to {str(bound) + local}", h=h, iri=iri, prefix=pfx)
        try:
            ex = g.namespace_manager.expand_curie(pfx + ":" + local)
        except Exception as e:
            ctx.deviation("C17.expand-raises", f"expand_curie({pfx}:{local}) raised {type(e).__name__}: {e}")
            return
        ctx.check(str(ex) == iri, "C17.expand-roundtrip", lambda: f"expand_curie({pfx}:{local}) = {ex}, asked about {iri}")

    before = set()
    for op in trace["ops"]:
        k = op["k"]
        h = op["h"] % len(cfg["handles"])
        if h not in handles and handles and last_bind_by[0] is not None:
            pass
        g = handle(h)
        nm = g.namespace_manager
        ctx.op(f"h{h}", k)
        if k == "bind":
            pfx, ns = op["prefix"], op["ns"]
            cur_ns = store.namespace(pfx)
            if op["replace"] and cur_ns is not None and str(cur_ns) != ns:
                ctx.probe("replace-on-taken-prefix")
            if not op["override"] and store.prefix(URIRef(ns)) is not None:
                ctx.probe("override-false-on-bound-namespace")
            if pfx == "":
                ctx.probe("empty-prefix-bound")
            if cur_ns is not None and str(cur_ns) != ns and not op["replace"]:
                ctx.probe("prefix-collision-numbered")
            # the namespace may be handed over as a plain URIRef, a str, a Namespace or an instance of a URIRef subclass
            nsarg = {"str": ns, "Namespace": Namespace(ns), "subclass": _IriSubclass(ns)}.get(op.get("as"), URIRef(ns))
            g.bind(pfx, nsarg, override=op["override"], replace=op["replace"])
            last_bind_by[0] = h
        elif k in ("qname", "curie", "curie-nogen", "compute_qname", "compute_qname-nogen", "qname_strict", "normalizeUri", "n3"):
            iri = op["iri"]
            if (h, iri) in cached:
                old_ns = cached[(h, iri)]
                if store.prefix(URIRef(old_ns)) is None or old_ns not in {n for p, n in before}:
                    ctx.probe("qname-after-rebind-of-its-namespace")
                if any(len(n) > len(old_ns) and iri.startswith(n) for p, n in before):
                    ctx.probe("longer-namespace-bound-after-qname")
            if last_bind_by[0] is not None and last_bind_by[0] != h:
                ctx.probe("second-handle-qname-after-first-handle-bind")
            try:
                if k == "qname":
                    r = nm.qname(iri)
                    pfx, local = r.split(":", 1) if ":" in r else ("", r)
                    # qname() omits the colon for the empty prefix; a local name may itself contain ':' only if the prefix is non-empty
                    if ":" in r and store.namespace(pfx) is None and store.namespace("") is not None and str(store.namespace("")) + r == iri:
                        pfx, local = "", r
                elif k in ("curie", "curie-nogen"):
                    r = nm.curie(iri, generate=k == "curie")
                    pfx, local = r.split(":", 1)
                elif k in ("compute_qname", "compute_qname-nogen"):
                    pfx, ns_, local = nm.compute_qname(iri, generate=k == "compute_qname")
                    ctx.check(str(ns_) + local == iri, "C17.compute-qname-parts", lambda: f"compute_qname({iri}) = {(pfx, str(ns_), local)}")
                elif k == "qname_strict":
                    r = nm.qname_strict(iri)
                    pfx, local = r.split(":", 1) if ":" in r else ("", r)
                elif k == "normalizeUri":
                    r = nm.normalizeUri(URIRef(iri))
                    if r.startswith("<"):
                        ctx.check(r == f"<{iri}>", "C17.normalize-iri-form", lambda: f"normalizeUri({iri}) = {r}")
                        raise LookupError("no prefix")
                    pfx, local = r.split(":", 1)
                else:
                    r = URIRef(iri).n3(nm)
                    if r.startswith("<"):
                        ctx.check(r == f"<{iri}>", "C17.n3-iri-form", lambda: f"n3({iri}) = {r}")
                        raise LookupError("no prefix")
                    pfx, local = r.split(":", 1)
                    # n3() escapes reserved characters of the local name (PN_LOCAL_ESC)
                    local = _unescape_local(local)
            except (KeyError, ValueError, LookupError) as e:
                ctx.log(k, f"h{h} {iri} raised {type(e).__name__}")
            else:
                if pfx.startswith("ns") and pfx[2:].isdigit():
                    ctx.probe("generated-prefix")
                check_compact(h, iri, pfx, local, k)
                b = store.namespace(pfx)
                if b is not None:
                    cached[(h, iri)] = str(b)
                ctx.log(k, f"h{h} {iri} -> {pfx}:{local}")
        elif k == "parse":
            kw = "@prefix %s: <%s> ." if op["style"] == "@prefix" else "PREFIX %s: <%s>"
            doc = "\n".join(kw % (p, n) for p, n in op["decl"]) + ("\n<http://ex.org/s> <http://ex.org/p> <http://ex.org/o> .\n" if cfg["store"] != "sparql" else "\n")
            g.parse(data=doc, format="turtle")
            last_bind_by[0] = h
        elif k == "serialize" and cfg["store"] == "sparql":
            continue
        elif k == "serialize":
            for s, p, o in op["triples"]:
                g.add((URIRef(s), URIRef(p), URIRef(o)))
            try:
                out = g.serialize(format=op["format"])
            except ValueError as e:  # predicates that cannot be split for XML: refusing is allowed
                ctx.log(k, f"h{h} {op['format']} ValueError")
            else:
                ctx.log(k, f"h{h} {op['format']} {len(out)}")
            last_bind_by[0] = h
        elif k == "peek":
            ctx.probe("listing-abandoned-half-way")
            if op["how"] == "contains":
                got = op["iri"] in nm
                exp = any(op["iri"].startswith(str(n)) for _, n in store.namespaces())
                ctx.check(got == exp, "C17.manager-contains", lambda: f"{op['iri']!r} in namespace_manager -> {got}, bindings say {exp}")
            elif op["how"] == "next-close":
                it = iter(g.namespaces())
                next(it, None)
                if hasattr(it, "close"):
                    it.close()
            else:
                for n_, _ in enumerate(g.namespaces()):
                    if n_ >= 1:
                        break
        elif k == "reset":
            nm.reset()
        elif k == "storebind":
            # a binding made directly on the shared store (what another library layer or another manager does)
            store.bind(op["prefix"], URIRef(op["ns"]), override=op["override"])
            last_bind_by[0] = -1
        elif k == "expand":
            b = store.namespace(op["prefix"])
            try:
                r = nm.expand_curie(op["prefix"] + ":" + op["local"])
            except ValueError:
                ctx.check(b is None, "C17.expand-refuses-bound-prefix", lambda: f"expand_curie({op['prefix']}:{op['local']}) raised although the prefix is bound to {b}")
            else:
                ctx.check(b is not None and str(r) == str(b) + op["local"], "C17.expand", lambda: f"expand_curie({op['prefix']}:{op['local']}) = {r}, binding {b}")
        else:
            raise ValueError(k)
        now = invariants(f"after op uid={op['uid']} {k}")
        if now != before and k in ("bind", "storebind"):
            ctx.probe("bind-changed-map")
        before = now
        if k == "bind":
            ctx.log(k, f"h{h} {op['prefix']!r} {op['ns']} o={op['override']} r={op['replace']} -> {len(now)} bindings")
        ctx.state(_srt(now))


def _unescape_local(s):
    out = []
    i = 0
    while i < len(s):
        if s[i] == "\\" and i + 1 < len(s):
            out.append(s[i + 1])
            i += 2
        else:
            out.append(s[i])
            i += 1
    return "".join(out)


def simplify(trace):
    import copy

    cfg = trace["config"]
    for i, b in enumerate(cfg["handles"]):
        if b != "none":
            t = copy.deepcopy(trace)
            t["config"]["handles"][i] = "none"
            yield t
    if cfg["store"] != "memory":
        t = copy.deepcopy(trace)
        t["config"]["store"] = "memory"
        yield t
    for i, op in enumerate(trace["ops"]):
        if op["k"] == "parse" and len(op["decl"]) > 1:
            for j in range(len(op["decl"])):
                t = copy.deepcopy(trace)
                del t["ops"][i]["decl"][j]
                yield t
        if op["k"] == "serialize" and len(op["triples"]) > 1:
            t = copy.deepcopy(trace)
            t["ops"][i]["triples"] = op["triples"][:1]
            yield t
        if op["k"] not in ("bind", "parse", "serialize", "expand", "qname"):
            t = copy.deepcopy(trace)
            t["ops"][i]["k"] = "qname"
            yield t
