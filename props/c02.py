"""C02 - a Dataset keeps named graphs isolated; the union view is the union of its graphs.

Clients: several handles on one Memory store (Dataset with default_union on/off, a
ConjunctiveGraph, Graph views obtained at scheduler-chosen moments: before the graph exists,
while it is empty, after remove_graph).  Oracle: dict name -> set model including graph
lifecycle; every observation channel compared after every step.
"""
from __future__ import annotations

from sim.rng import Stream
from sim.terms import EX, XSD, T, key, skey, tkey, u

ID = "C02"
LEVEL = "exploration"
TIERS = {"quick": {"runs": 3200, "wall_cap": 600}, "thorough": {"runs": 80000, "wall_cap": 3300}}
RULE = (
    "each evaluation is one seeded history (<=40 quick / <=70 thorough steps) of quad add / addN / triple add / remove by triple pattern (all "
    "graphs) / remove by quad pattern / view.add / view.remove / graph creation / remove_graph over <=4 graph names (IRI, BNode with the same "
    "string as an IRI, auto-generated, default), issued through a Dataset (default_union on or off), a second Dataset object, a ConjunctiveGraph and Graph views on one "
    "Memory store; after every step quads(), graphs(), every view, quad membership (name as identifier and as Graph, incl. empty and unknown "
    "graphs), triples(context=), triples_choices per graph, graphs(triple), quads(pattern), lazy quads() readers and the merged view are compared with a dict name -> set model; distinct = distinct trace "
    "digest; non-trivial = at least 4 effective mutations touching at least 2 graphs"
)
REAL = ["rdflib.graph.Dataset", "rdflib.graph.ConjunctiveGraph", "rdflib.graph.Graph (views)", "rdflib.plugins.stores.memory.Memory"]
STUB = []
ASSUMPTIONS = [
    "graphs(): every non-empty graph, the default graph and every created-and-not-removed graph must be listed, removed graphs must not; whether a graph emptied by triple removal stays listed is not constrained",
    "the default graph may be reported as None or under its well-known identifier",
    "views passed as graph arguments are views on the same store (foreign Graph objects are C13's business)",
]
PROBES = [
    "addN-through-BatchAddGraph",
    "shared-triple-removed-from-one-graph",
    "query-existing-empty-graph",
    "query-unknown-graph",
    "default-graph-removed",
    "first-triple-of-store-in-named-graph",
    "view-obtained-before-graph-exists",
    "view-used-after-remove_graph",
    "remove-no-graph-hit-2+graphs",
    "bnode-and-iri-same-string",
    "quads-reader-resumed-after-mutation",
    "quad-with-None-graph",
]
KNOWN_PREDICATES = {
    # an open quads() iterator meets a triple that was removed from every graph meanwhile: the store then reports the contexts of
    # its "default context info" (those of the first triple ever added), i.e. a graph the triple never was in
    "C02-quads-iterator-phantom-context-after-removal": lambda f: f.get("triple_fully_removed") is True and f.get("triple_was_in_window_elsewhere") is True and f.get("matches") is True,
    # ConjunctiveGraph.quads((s, p, o, g)) asks the store for the triples of g but then yields one quad per context the triple is in
    "C02-quads-pattern-yields-other-contexts": lambda f: not f.get("missing") and f.get("extra_are_other_contexts_of_matching_triples") is True and not f.get("graph_empty"),
}

DEFAULT = "urn:x-rdflib:default"


def _srt(xs):
    return sorted(xs, key=repr)


def warm():
    import rdflib  # noqa


NAMES = [u("g1"), ["b", "http://ex.org/g1"], u("g2"), ["b", "gb"]]


def generate(seed, tier):
    g = Stream(seed, "gen")
    sched = Stream(seed, "sched")
    names = list(NAMES)
    g.shuffle(names)
    names = names[: g.randint(1, 4)]
    subs = [u("s"), ["b", "s"], u("s2")][: g.randint(1, 3)]
    preds = [u("p"), u("q")][: g.randint(1, 2)]
    objs = [u("o"), ["l", "", None, None], ["l", "0", None, XSD + "integer"], ["l", "v", None, None]][: g.randint(1, 4)]
    cfg = {"union": g.chance(0.5), "names": names, "vocab": [subs, preds, objs], "sweep_patterns": g.randint(2, 6), "veto_mode": g.chance(0.2)}
    w = {
        "add": g.choice([3, 6]),
        "addN": g.choice([0, 1]),
        "remove": g.choice([1, 3]),
        "wild": g.choice([0, 1, 2]),
        "graph": g.choice([0, 1, 2]),
        "remove_graph": g.choice([0, 1, 2]),
        "view": g.choice([0, 1, 2]),
        "remove_context": g.choice([0, 0, 1]),
        "iadd": g.choice([0, 0, 1]),
        "isub": g.choice([0, 0, 1]),
        "openq": g.choice([0, 0, 1, 2]),
    }
    nsteps = g.randint(3, 40 if tier == "quick" else 70)
    model = {}
    ops = []
    nviews = 0
    gi = lambda: g.choice([None] + list(range(len(names))) * 2)  # noqa: E731  None = default graph

    def tri():
        return [g.pick(subs), g.pick(preds), g.pick(objs)]

    def present():
        return [(t, n) for n, ts in model.items() for t in ts]

    liveq = []
    nq = 0
    for i in range(nsteps):
        if liveq and sched.chance(0.4):
            r = sched.pick(liveq)
            k = sched.choice(["stepq", "stepq", "drainq", "closeq"])
            ops.append({"uid": i + 1, "k": k, "r": r, "n": sched.choice([1, 1, 2])})
            if k != "stepq":
                liveq.remove(r)
            continue
        kind = g.weighted(list(w.items()))
        op = {"uid": i + 1, "k": kind, "via": sched.choice(["ds", "ds", "cg", "view", "storedview"])}
        if kind == "add":
            op["t"] = tri()
            op["g"] = gi()
            if g.chance(0.3) and present():
                op["t"] = [list(x) for x in g.pick(_srt(present()))[0]]  # an existing triple, usually into another graph
            op["as"] = g.choice(["id", "graph"])
            if cfg["veto_mode"] and g.chance(0.25):
                op["veto"] = True  # fault: a TripleAddedEvent subscriber of the store raises during this add
            else:
                model.setdefault(op["g"], set()).add(tuple(tuple(x) for x in op["t"]))
        elif kind == "addN":
            op["q"] = [tri() + [gi()] for _ in range(g.randint(1, 4))]
            op["as"] = g.choice(["id", "graph"])
            for q in op["q"]:
                model.setdefault(q[3], set()).add(tuple(tuple(x) for x in q[:3]))
        elif kind in ("remove", "wild"):
            t = tri()
            if g.chance(0.7) and present():
                t = [list(x) for x in g.pick(_srt(present()))[0]]
            if kind == "wild":
                mask = g.randrange(7)
                t = [t[j] if mask >> j & 1 else None for j in range(3)]
            op["k"] = "remove"
            op["t"] = t
            op["g"] = g.choice(["all", "all"] + [gi(), gi(), gi()])
            op["as"] = g.choice(["id", "graph"])
            for n, ts in model.items():
                if op["g"] == "all" or op["g"] == n:
                    model[n] = {x for x in ts if not all(t[j] is None or tuple(t[j]) == x[j] for j in range(3))}
        elif kind == "graph":
            op["g"] = g.choice(list(range(len(names))) + ["auto", None])
            op["how"] = g.choice(["graph", "add_graph", "graph-with-view"])
            op["h2"] = g.chance(0.2)  # through a second Dataset object on the same store
        elif kind == "remove_graph":
            op["g"] = gi()
            op["as"] = g.choice(["id", "graph", "storedview"])
            op["h2"] = g.chance(0.3)  # through a second Dataset object on the same store
            model[op["g"]] = set()
        elif kind == "openq":
            nq += 1
            t = tri()
            mask = g.randrange(8)
            op["r"] = nq
            op["t"] = [t[j] if mask >> j & 1 else None for j in range(3)] if g.chance(0.5) else [None, None, None]
            op["via"] = g.choice(["ds", "cg"])
            liveq.append(nq)
        elif kind == "isub":
            pres = _srt(present())
            op["q"] = []
            for _ in range(g.randint(1, 3)):
                if pres and g.chance(0.8):
                    t, n = g.pick(pres)
                    op["q"].append([list(x) for x in t] + [n])
                else:
                    op["q"].append(tri() + [gi()])
            op["triples_only"] = g.chance(0.3)
            for q in op["q"]:
                for n, ts in model.items():
                    if op["triples_only"] or n == q[3]:
                        ts.discard(tuple(tuple(x) for x in q[:3]))
        elif kind == "remove_context":
            op["g"] = gi()
            model[op["g"]] = set()
        elif kind == "iadd":
            op["q"] = [tri() + [gi()] for _ in range(g.randint(1, 3))]
            for q in op["q"]:
                model.setdefault(q[3], set()).add(tuple(tuple(x) for x in q[:3]))
        elif kind == "view":
            nviews += 1
            op["v"] = nviews
            op["g"] = gi()
            op["how"] = g.choice(["Graph", "get_context", "graph"])
        if nviews:
            op["sv"] = g.randrange(nviews) + 1
        ops.append(op)
    return {"property": ID, "config": cfg, "ops": ops}


def nontrivial(trace, res):
    p = res.get("probes", {})
    return p.get("effective-mutation", 0) >= 4 and p.get("graphs-touched-max", 0) >= 2


def execute(trace, ctx):
    import warnings

    from rdflib import ConjunctiveGraph, Dataset, Graph
    from rdflib.graph import DATASET_DEFAULT_GRAPH_ID
    from rdflib.paths import AlternativePath
    from rdflib.plugins.stores.memory import Memory
    from rdflib.term import URIRef

    warnings.simplefilter("ignore")
    cfg = trace["config"]
    names = cfg["names"]
    subs, preds, objs = cfg["vocab"]
    store = Memory()
    ds = Dataset(store, default_union=cfg["union"])
    cg = ConjunctiveGraph(store, identifier=DATASET_DEFAULT_GRAPH_ID)
    ds2 = Dataset(store, default_union=cfg["union"])  # a second handle on the same data

    class SubscriberVeto(Exception):
        pass

    armed = [False]
    if cfg.get("veto_mode"):
        from rdflib.store import TripleAddedEvent

        def on_add(event):
            if armed[0]:
                armed[0] = False
                ctx.fault("subscriber-raised")
                raise SubscriberVeto()

        store.dispatcher.subscribe(TripleAddedEvent, on_add)
    DEF = ("u", str(DATASET_DEFAULT_GRAPH_ID))
    if len({n[1] for n in names}) < len(names):
        ctx.probe("bnode-and-iri-same-string")

    def gname(gi):
        if gi is None:
            return None
        if isinstance(gi, list):  # auto-generated name, stored as spec
            return gi
        return names[gi % len(names)]

    def gkey(gi):
        n = gname(gi)
        return DEF if n is None else skey(n)

    def gterm(gi):
        n = gname(gi)
        return URIRef(str(DATASET_DEFAULT_GRAPH_ID)) if n is None else T(n)

    model = {DEF: set()}  # gkey -> set of triple keys
    created = {DEF}  # explicitly created and not removed
    removed = set()  # removed and not re-populated / re-created
    views = {}  # id -> (Graph, gkey)
    autos = []
    store_empty = [True]
    nmut = [0]
    touched = set()

    def view_of(gi, how="Graph"):
        if how == "get_context":
            return ds.get_context(gterm(gi))
        return Graph(store, gterm(gi))

    def garg(op, gi):
        """the graph argument of a quad: identifier or Graph view"""
        if op.get("as") == "graph":
            return Graph(store, gterm(gi))
        if op.get("as") == "storedview" and op.get("sv") in views and views[op["sv"]][1] == gkey(gi):
            ctx.probe("view-used-after-remove_graph") if gkey(gi) in removed else None
            return views[op["sv"]][0]
        return gterm(gi)

    vt = [(s, p, o) for s in subs for p in preds for o in objs]

    def norm_ctx(c):
        if c is None:
            return DEF
        ident = c.identifier if isinstance(c, Graph) else c
        k = key(ident)
        return k

    def match(pat, t):
        return all(pat[i] is None or skey(pat[i]) == t[i] for i in range(3))

    def sweep(where):
        allq = {t + (n,) for n, ts in model.items() for t in ts}
        # 1. quads()
        lst = [tkey((s, p, o)) + (norm_ctx(c),) for s, p, o, c in ds.quads((None, None, None, None))]
        ctx.check(len(lst) == len(set(lst)), "C02.quads-duplicates", lambda: f"{where}: ds.quads() yields duplicates {_srt(lst)}")
        ctx.check(set(lst) == allq, "C02.quads", lambda: f"{where}: ds.quads() missing={_srt(allq - set(lst))} extra={_srt(set(lst) - allq)}")
        lst2 = [tkey((s, p, o)) + (norm_ctx(c),) for s, p, o, c in cg.quads((None, None, None))]
        ctx.check(set(lst2) == allq, "C02.cg-quads", lambda: f"{where}: ConjunctiveGraph.quads() missing={_srt(allq - set(lst2))} extra={_srt(set(lst2) - allq)}")
        # 2. graphs()
        gl = list(ds.graphs())
        ids = [key(g.identifier) for g in gl]
        ctx.check(len(ids) == len(set(ids)), "C02.graphs-duplicates", lambda: f"{where}: graphs() lists a graph twice: {ids}")
        must = {n for n, ts in model.items() if ts} | created
        ctx.check(must <= set(ids), "C02.graphs-missing", lambda: f"{where}: graphs() does not list {_srt(must - set(ids))} (listed {ids})")
        ghost = set(ids) & removed
        ctx.check(not ghost, "C02.graphs-removed-still-listed", lambda: f"{where}: graphs() still lists removed graph(s) {_srt(ghost)}")
        for g in gl:
            k = key(g.identifier)
            got = {tkey(t) for t in g}
            exp = model.get(k, set())
            ctx.check(got == exp, "C02.graphs-content", lambda: f"{where}: Graph yielded by graphs() for {k} has missing={_srt(exp - got)} extra={_srt(got - exp)}")
        # 2b. graphs(triple): exactly the graphs that hold the triple
        for t in vt[: cfg["sweep_patterns"]]:
            tk = tuple(skey(x) for x in t)
            holders = {n for n, ts in model.items() if tk in ts}
            gotg = {key(g.identifier) for g in ds.graphs((T(t[0]), T(t[1]), T(t[2])))}
            ctx.check(gotg == holders, "C02.graphs-of-triple", lambda: f"{where}: graphs({t}) -> {_srt(gotg)}, the triple is in {_srt(holders)}")
        # 3. stored views
        for vid, (v, k) in views.items():
            exp = model.get(k, set())
            got = [tkey(t) for t in v]
            ctx.check(len(got) == len(set(got)) and set(got) == exp, "C02.view-content", lambda: f"{where}: view #{vid} of {k}: missing={_srt(exp - set(got))} extra={_srt(set(got) - exp)}")
            ctx.check(len(v) == len(exp), "C02.view-len", lambda: f"{where}: len(view #{vid} of {k}) = {len(v)}, model {len(exp)}")
        # 4. quad membership, names as identifier and as view, incl. empty and unknown graphs
        cand = [None] + list(range(len(names))) + [a for a in autos]
        unknown = u("never-used")
        for gi in cand + [unknown]:
            k = gkey(gi) if gi is not unknown else skey(unknown)
            exp = model.get(k, set())
            real = exp
            if k == DEF and cfg["union"]:
                # by design (ConjunctiveGraph.triples): with default_union the default graph, when named explicitly in a
                # triples()/membership call, stands for the union; quads(pattern) and views show the real default graph
                exp = set().union(*model.values())
            if not exp:
                ctx.probe("query-existing-empty-graph" if (k in created or k in model) else "query-unknown-graph")
            gt = gterm(gi) if gi is not unknown else T(unknown)
            for t in vt:
                tk = tuple(skey(x) for x in t)
                for form, garg_ in (("id", gt), ("graph", Graph(store, gt))):
                    got = (T(t[0]), T(t[1]), T(t[2]), garg_) in ds
                    ctx.check(got == (tk in exp), "C02.quad-membership", lambda: f"{where}: ({t}, graph {k} as {form}) in ds -> {got}, model {tk in exp}", graph_empty=not exp, in_default=tk in model[DEF], in_any=any(tk in ts for ts in model.values()), answer=got, union=cfg["union"], form=form)
            # 5. triples(context=view) and quads(pattern with graph)
            for pi in range(cfg["sweep_patterns"]):
                pat = _pattern(vt, pi)
                e = {t for t in exp if match(pat, t)}
                got = {tkey(t) for t in ds.triples((T(pat[0]), T(pat[1]), T(pat[2])), context=Graph(store, gt))}
                ctx.check(got == e, "C02.triples-context", lambda: f"{where}: ds.triples({pat}, context=<{k}>) missing={_srt(e - got)} extra={_srt(got - e)}", graph_empty=not exp, union=cfg["union"])
                if pi == 0:
                    # a property path as predicate, restricted to this graph (p|q and p*): answered from this graph only
                    alt = AlternativePath(URIRef(EX + "p"), URIRef(EX + "q"))
                    ea = {(t[0], t[2]) for t in exp if t[1] in (("u", EX + "p"), ("u", EX + "q"))}
                    for form, carg in (("context=", Graph(store, gt)), ("quad", None)):
                        if carg is not None:
                            gota = {(key(a), key(c_)) for a, _, c_ in ds.triples((None, alt, None), context=carg)}
                        else:
                            gota = {(key(a), key(c_)) for a, _, c_ in ds.triples((None, alt, None, gt))}
                        ctx.check(gota == ea, "C02.path-in-graph", lambda: f"{where}: ds.triples((ANY, p|q, ANY)) restricted to <{k}> ({form}) missing={_srt(ea - gota)} extra={_srt(gota - ea)}", graph_empty=not exp, union=cfg["union"])
                if pi == 0:
                    # triples_choices restricted to this graph: through a view, and through the dataset with context=
                    ch = [URIRef(EX + "p"), URIRef(EX + "q")]
                    ec = {t for t in real if t[1] in (("u", EX + "p"), ("u", EX + "q"))}
                    gotv = {tkey(t) for t in Graph(store, gt).triples_choices((None, ch, None))}
                    ctx.check(gotv == ec, "C02.choices-view", lambda: f"{where}: view of <{k}>.triples_choices((ANY, [p, q], ANY)) missing={_srt(ec - gotv)} extra={_srt(gotv - ec)}", graph_empty=not real)
                    if not (k == DEF and cfg["union"]):
                        gotd = {tkey(t) for t in ds.triples_choices((None, ch, None), context=Graph(store, gt))}
                        ctx.check(gotd == ec, "C02.choices-context", lambda: f"{where}: ds.triples_choices((ANY, [p, q], ANY), context=<{k}>) missing={_srt(ec - gotd)} extra={_srt(gotd - ec)}", graph_empty=not real)
                    # the list in the subject slot and in the object slot (an empty list stands for "any" by the store's design: not asked)
                    for slot, terms in ((0, subs[:2]), (2, objs[:2])):
                        lst = [T(x) for x in terms]
                        patc = [None, None, None]
                        patc[slot] = lst
                        es = {t for t in real if t[slot] in {skey(x) for x in terms}}
                        gots = {tkey(t) for t in Graph(store, gt).triples_choices(tuple(patc))}
                        ctx.check(gots == es, "C02.choices-view", lambda: f"{where}: view of <{k}>.triples_choices with a list of {len(lst)} in slot {slot}: missing={_srt(es - gots)} extra={_srt(gots - es)}", graph_empty=not real, slot=slot)
                        if not (k == DEF and cfg["union"]):
                            gots2 = {tkey(t) for t in ds.triples_choices(tuple(patc), context=Graph(store, gt))}
                            ctx.check(gots2 == es, "C02.choices-context", lambda: f"{where}: ds.triples_choices(list of {len(lst)} in slot {slot}, context=<{k}>) missing={_srt(es - gots2)} extra={_srt(gots2 - es)}", graph_empty=not real, slot=slot)
                gotq = {tkey((s, p, o)) + (norm_ctx(c),) for s, p, o, c in ds.quads((T(pat[0]), T(pat[1]), T(pat[2]), gt))}
                eq = {t + (k,) for t in real if match(pat, t)}
                ctx.check(
                    gotq == eq,
                    "C02.quads-pattern",
                    lambda: f"{where}: ds.quads(({pat}, {k})) missing={_srt(eq - gotq)} extra={_srt(gotq - eq)}",
                    graph_empty=not real,
                    missing=eq - gotq,
                    # every extra quad is a true quad of the dataset whose triple is also in the requested graph and matches the pattern
                    extra_are_other_contexts_of_matching_triples=all(q[:3] in {t for t in real if match(pat, t)} and q[3] != k and q[:3] in model.get(q[3], set()) for q in gotq - eq),
                )
        # 6. merged view
        merged = set().union(*model.values()) if cfg["union"] else set(model[DEF])
        got = [tkey(t) for t in ds.triples((None, None, None))]
        ctx.check(set(got) == merged, "C02.merged-view", lambda: f"{where}: ds.triples(ANY) (default_union={cfg['union']}) missing={_srt(merged - set(got))} extra={_srt(set(got) - merged)}")
        for t in vt:
            tk = tuple(skey(x) for x in t)
            gotm = (T(t[0]), T(t[1]), T(t[2])) in ds
            ctx.check(gotm == (tk in merged), "C02.merged-membership", lambda: f"{where}: {t} in ds -> {gotm}, model {tk in merged}")
        if len(preds) >= 2:
            # triples_choices without a graph: the merged view as well
            chp = [T(preds[0]), T(preds[1])]
            gotch = {tkey(t) for t in ds.triples_choices((None, chp, None))}
            expch = {t for t in merged if t[1] in (skey(preds[0]), skey(preds[1]))}
            ctx.check(gotch == expch, "C02.merged-choices", lambda: f"{where}: ds.triples_choices((ANY, [p1, p2], ANY)) (default_union={cfg['union']}) missing={_srt(expch - gotch)} extra={_srt(gotch - expch)}")
        if cfg["union"]:
            ctx.check(len(ds) == len(merged), "C02.merged-len", lambda: f"{where}: len(ds) = {len(ds)}, union has {len(merged)} distinct triples")
        unionall = set().union(*model.values())
        gotc = {tkey(t) for t in cg.triples((None, None, None))}
        ctx.check(gotc == unionall, "C02.cg-union", lambda: f"{where}: ConjunctiveGraph.triples(ANY) missing={_srt(unionall - gotc)} extra={_srt(gotc - unionall)}")

    sweep("initial")
    qreaders = {}

    def allquads():
        return {t + (n,) for n, ts in model.items() for t in ts}

    for op in trace["ops"]:
        k = op["k"]
        via = op.get("via", "ds")
        ctx.op(via, k)
        if k in ("stepq", "drainq", "closeq"):
            r = qreaders.get(op["r"])
            if r is None:
                continue
            if k == "closeq":
                r["gen"].close()
                del qreaders[op["r"]]
                continue
            for _ in range(10**6 if k == "drainq" else op.get("n", 1)):
                try:
                    s_, p_, o_, c_ = next(r["gen"])
                except StopIteration:
                    qreaders.pop(op["r"], None)
                    break
                except Exception as e:
                    ctx.deviation("C02.quads-reader-raised", f"an open quads() iterator raised {type(e).__name__}: {e} when resumed after a mutation")
                    qreaders.pop(op["r"], None)
                    break
                qk = tkey((s_, p_, o_)) + (norm_ctx(c_),)
                if r["muts"] < nmut[0]:
                    ctx.probe("quads-reader-resumed-after-mutation")
                ctx.check(
                    qk in r["window"] and match(r["t"], qk[:3]),
                    "C02.quads-reader-window",
                    lambda: f"an open quads({r['t']}) iterator yielded {qk}, a quad that matched at no moment since it was opened (window={_srt(r['window'])})",
                    # the triple was in the window in another graph, is now in no graph at all, and matches the pattern
                    triple_fully_removed=not any(qk[:3] in ts for ts in model.values()),
                    triple_was_in_window_elsewhere=any(w[:3] == qk[:3] for w in r["window"]),
                    matches=match(r["t"], qk[:3]),
                )
            continue
        before = {n: set(ts) for n, ts in model.items()}
        if k == "add":
            t = op["t"]
            gi = op["g"]
            gk = gkey(gi)
            triple = (T(t[0]), T(t[1]), T(t[2]))
            if store_empty[0] and gi is not None:
                ctx.probe("first-triple-of-store-in-named-graph")
            veto = bool(op.get("veto") and cfg.get("veto_mode"))
            armed[0] = veto
            try:
                if via in ("view", "storedview"):
                    v = views[op["sv"]][0] if via == "storedview" and op.get("sv") in views and views[op["sv"]][1] == gk else view_of(gi)
                    v.add(triple)
                elif gi is None and op.get("as") == "id" and op["uid"] % 3 == 0:
                    (cg if via == "cg" else ds).add(triple + (None,))  # a quad whose graph is None -> default graph
                    ctx.probe("quad-with-None-graph")
                elif gi is None and op.get("as") == "id":
                    (cg if via == "cg" else ds).add(triple)  # triple without graph -> default graph
                else:
                    (cg if via == "cg" else ds).add(triple + (garg(op, gi),))
            except SubscriberVeto:
                ctx.probe("add-interrupted-by-subscriber")
            armed[0] = False
            # a refused add either took effect in the graph it was aimed at or did not (the graph itself says which); it must
            # not show anywhere else
            if not veto or triple in Graph(store, gterm(gi)):
                store_empty[0] = False
                model.setdefault(gk, set()).add(tuple(skey(x) for x in t))
                removed.discard(gk)
        elif k == "addN":
            store_empty[0] = False
            if via == "view" and op["uid"] % 3 == 0:
                # Graph.addN on a view; the graph of each quad is given as a Graph object of the same name that lives on
                # ANOTHER store (and holds something else): the quads of the view's own name are taken, that object is not
                gi0 = op["q"][0][3]
                ctx.probe("addN-with-same-named-graph-of-another-store")

                def foreign(gi):
                    f = Graph(Memory(), gterm(gi))
                    f.add((URIRef(EX + "foreign"), URIRef(EX + "p"), URIRef(EX + "foreign")))
                    return f

                Graph(store, gterm(gi0)).addN([(T(s), T(p), T(o), foreign(gi)) for s, p, o, gi in op["q"]])
                for s, p, o, gi in op["q"]:
                    if gkey(gi) == gkey(gi0):
                        model.setdefault(gkey(gi), set()).add((skey(s), skey(p), skey(o)))
                        removed.discard(gkey(gi))
            elif via in ("ds", "cg") and op["uid"] % 5 == 0:
                # through the batching wrapper: triples without a graph go where add(triple) puts them, quads to their graph
                from rdflib.graph import BatchAddGraph

                ctx.probe("addN-through-BatchAddGraph")
                with BatchAddGraph(cg if via == "cg" else ds, batch_size=2, batch_addn=bool(op["uid"] % 2)) as batch:
                    for s, p, o, gi in op["q"]:
                        batch.add((T(s), T(p), T(o)) if gi is None else (T(s), T(p), T(o), garg(op, gi)))
                for s, p, o, gi in op["q"]:
                    model.setdefault(gkey(gi), set()).add((skey(s), skey(p), skey(o)))
                    removed.discard(gkey(gi))
            else:
                quads = [(T(s), T(p), T(o), garg(op, gi) if not (gi is None and op["uid"] % 2) else None) for s, p, o, gi in op["q"]]
                (cg if via == "cg" else ds).addN(quads)
                for s, p, o, gi in op["q"]:
                    model.setdefault(gkey(gi), set()).add((skey(s), skey(p), skey(o)))
                    removed.discard(gkey(gi))
        elif k == "remove":
            t = op["t"]
            pat = (T(t[0]), T(t[1]), T(t[2]))
            if op["g"] == "all":
                hitg = [n for n, ts in model.items() if any(match(t, x) for x in ts)]
                if len(hitg) >= 2:
                    ctx.probe("remove-no-graph-hit-2+graphs")
                # (no graph: as a triple, or as a quad whose graph is None - both mean every graph)
                (cg if via == "cg" else ds).remove(pat if op["uid"] % 2 else pat + (None,))
                for n in model:
                    model[n] = {x for x in model[n] if not match(t, x)}
            else:
                gi = op["g"]
                gk = gkey(gi)
                hit = {x for x in model.get(gk, set()) if match(t, x)}
                if any(x in ts for x in hit for n, ts in model.items() if n != gk):
                    ctx.probe("shared-triple-removed-from-one-graph")
                if via in ("view", "storedview"):
                    v = views[op["sv"]][0] if via == "storedview" and op.get("sv") in views and views[op["sv"]][1] == gk else view_of(gi)
                    v.remove(pat)
                else:
                    (cg if via == "cg" else ds).remove(pat + (garg(op, gi),))
                model[gk] = model.get(gk, set()) - hit
        elif k == "graph":
            gi = op["g"]
            if gi == "auto":
                g = ds.graph()
                spec = ["u", str(g.identifier)]
                autos.append(spec)
                gk = skey(spec)
            else:
                gk = gkey(gi)
                arg = Graph(store, gterm(gi)) if op["how"] == "graph-with-view" else gterm(gi)
                dsx = ds2 if op.get("h2") else ds
                g = dsx.add_graph(arg) if op["how"] == "add_graph" else dsx.graph(arg)
                ctx.check(key(g.identifier) == gk, "C02.graph-identity", lambda: f"ds.graph({gk}) returned a graph named {key(g.identifier)}")
            model.setdefault(gk, set())
            created.add(gk)
            removed.discard(gk)
        elif k == "remove_graph":
            gi = op["g"]
            gk = gkey(gi)
            if gi is None:
                ctx.probe("default-graph-removed")
            if op.get("h2"):
                ctx.probe("remove_graph-through-second-dataset")
            (ds2 if op.get("h2") else ds).remove_graph(garg(op, gi))
            model[gk] = set()
            if gk != DEF:
                created.discard(gk)
                removed.add(gk)
        elif k == "openq":
            t = op["t"]
            h = cg if via == "cg" else ds
            qreaders[op["r"]] = {"gen": h.quads((T(t[0]), T(t[1]), T(t[2]))), "t": t, "window": allquads(), "muts": nmut[0]}
            continue
        elif k == "isub":
            ds2 = ds
            if op.get("triples_only"):
                ds2 -= [(T(s_), T(p_), T(o_)) for s_, p_, o_, _ in op["q"]]  # no graph given: from all graphs
            else:
                ds2 -= [(T(s_), T(p_), T(o_), gterm(gi_)) for s_, p_, o_, gi_ in op["q"]]  # each quad from its own graph only
            for s_, p_, o_, gi_ in op["q"]:
                tk_ = (skey(s_), skey(p_), skey(o_))
                for n in model:
                    if op.get("triples_only") or n == gkey(gi_):
                        model[n].discard(tk_)
        elif k == "remove_context":
            # empties the graph; whether it stays registered is not constrained
            gk = gkey(op["g"])
            cg.remove_context(Graph(store, gterm(op["g"])))
            model[gk] = set()
            created.discard(gk) if gk != DEF else None
        elif k == "iadd":
            ds2 = ds
            ds2 += [(T(s), T(p), T(o), gterm(gi_)) for s, p, o, gi_ in op["q"]]
            ctx.check(ds2 is ds, "C02.iadd-identity", "+= returned another object")
            for s, p, o, gi_ in op["q"]:
                model.setdefault(gkey(gi_), set()).add((skey(s), skey(p), skey(o)))
                removed.discard(gkey(gi_))
        elif k == "view":
            gi = op["g"]
            gk = gkey(gi)
            if gk not in model and gk not in created:
                ctx.probe("view-obtained-before-graph-exists")
            if op["how"] == "graph":
                v = ds.graph(gterm(gi))
                model.setdefault(gk, set())
                created.add(gk)
                removed.discard(gk)
            else:
                v = view_of(gi, op["how"])
            views[op["v"]] = (v, gk)
        else:
            raise ValueError(k)
        nmut[0] += 1
        added_now = allquads()
        for r in qreaders.values():
            r["window"] |= added_now
        changed = [n for n in model if model[n] != before.get(n, set())]
        if changed:
            ctx.probe("effective-mutation")
            touched.update(changed)
            ctx.probes["graphs-touched-max"] = max(ctx.probes.get("graphs-touched-max", 0), len(touched))
        ctx.log(k, f"{via} {op.get('t')} g={op.get('g')} sizes={[len(model[n]) for n in _srt(model)]}")
        ctx.state(_srt((n, _srt(ts)) for n, ts in model.items()), _srt(created), len(views))
        sweep(f"after op uid={op['uid']} {k}")


def _pattern(vt, i):
    t = vt[(i * 7) % len(vt)]
    mask = [0, 1, 2, 4, 3, 5, 6, 7][i % 8]
    return [t[j] if mask >> j & 1 else None for j in range(3)]


def simplify(trace):
    import copy

    for i, op in enumerate(trace["ops"]):
        if op.get("via") not in (None, "ds"):
            t = copy.deepcopy(trace)
            t["ops"][i]["via"] = "ds"
            yield t
        if op.get("as") not in (None, "id"):
            t = copy.deepcopy(trace)
            t["ops"][i]["as"] = "id"
            yield t
        if op["k"] == "addN" and len(op["q"]) > 1:
            for j in range(len(op["q"])):
                t = copy.deepcopy(trace)
                del t["ops"][i]["q"][j]
                yield t
    if trace["config"]["sweep_patterns"] > 1:
        t = copy.deepcopy(trace)
        t["config"]["sweep_patterns"] = 1
        yield t
