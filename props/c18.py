"""C18 - the auditable store is atomic over any history.

System: base Memory store with initial content in several graphs; wrapper A and (half the
runs) wrapper B over the same base, vocabularies disjoint.  Tasks: client A, client B; the
seeded scheduler interleaves their operations and places commit/rollback anywhere.
Oracle: snapshot model per wrapper partition + content refinement after every step.
"""
from __future__ import annotations

from sim.rng import Stream
from sim.terms import EX, FALSY_OBJECTS, T, skey, tkey, u

ID = "C18"
LEVEL = "exploration"
TIERS = {"quick": {"runs": 8000, "wall_cap": 600}, "thorough": {"runs": 250000, "wall_cap": 3300}}
RULE = (
    "each evaluation is one seeded history (<=40 quick / <=70 thorough interleaved operations of 1-2 AuditableStore wrappers over one "
    "Memory store: add/addN/remove with wildcards/set/SPARQL CLEAR/DROP/DELETE/commit/rollback through Graph and ConjunctiveGraph handles and through the Graph objects that quads()/contexts() hand out; faults: a vetoing store subscriber, a batch source that dies) executed against "
    "real rdflib and a quad-set model with per-wrapper transaction snapshots; distinct = distinct trace digest; non-trivial = the "
    "history contains at least one rollback that had a non-empty undo obligation (model content differed from the snapshot) "
)
REAL = ["rdflib.plugins.stores.auditable.AuditableStore", "rdflib.plugins.stores.memory.Memory", "rdflib.graph.Graph/ConjunctiveGraph"]
STUB = []
ASSUMPTIONS = [
    "two wrappers touch disjoint triples (as the statement requires): partition = subject and predicate vocabulary",
    "content = set of quads; which empty graphs the store remembers is not compared",
    "graph names are non-empty IRIs or blank nodes",
]
PROBES = [
    "rollback-nonempty",
    "readd-of-removed-preexisting",
    "remove-of-added",
    "wildcard-remove-multi-graph",
    "double-rollback",
    "rollback-while-other-wrapper-dirty",
    "commit-then-rollback",
    "noop-add",
    "noop-remove",
    "batch-died-midway",
    "add-interrupted-by-subscriber",
    "sparql-update-through-wrapper",
]
KNOWN_PREDICATES = {}


def _srt(xs):
    return sorted(xs, key=repr)


GRAPHS = [u("g0"), u("g1"), ["b", "gb"]]


def warm():
    import rdflib  # noqa
    import rdflib.plugins.stores.auditable  # noqa
    import rdflib.plugins.stores.memory  # noqa


def _vocab(part):
    subs = [u(part + "s0"), u(part + "s1"), ["b", part + "b"]]
    preds = [u(part + "p0"), u(part + "p1")]
    objs = [u("o0"), ["b", "ob"], ["l", "x", None, None]] + FALSY_OBJECTS[:3] + [u(part + "s0")]
    return subs, preds, objs


def generate(seed, tier):
    g = Stream(seed, "gen")
    two = g.chance(0.5)
    parts = ["A", "B"] if two else ["A"]
    nsteps = g.randint(3, 40 if tier == "quick" else 70)
    simple = g.chance(0.2)  # base store without contexts: one graph, Graph / store handles only
    ngraphs = 1 if simple else g.randint(1, 3)
    graphs = GRAPHS[:ngraphs]
    init = []
    for part in parts + (["B"] if not two and g.chance(0.3) else []):
        subs, preds, objs = _vocab(part)
        for _ in range(g.randint(0, 6)):
            init.append([g.pick(subs), g.pick(preds), g.pick(objs), g.randrange(ngraphs)])
    # swarm weights, drawn once per run
    w = {
        "add": g.choice([1, 3, 6]),
        "addN": g.choice([0, 1, 2]),
        "remove": g.choice([1, 3, 6]),
        "wild": g.choice([0, 2, 4]),
        "set": g.choice([0, 1, 2]),
        "commit": g.choice([0, 1, 2]),
        "rollback": g.choice([1, 2, 3]),
        "sparql": g.choice([0, 0, 1]),
    }
    small = g.chance(0.5)  # small vocabulary => many collisions on the same quad
    veto_mode = g.chance(0.25)
    ops = []
    uid = 0
    sched = Stream(seed, "sched")
    # generator-side model (never the system under test): lets operations aim at present / absent / formerly-present quads
    content = {(tuple(map(_tt, (s, p, o))), gi) for s, p, o, gi in init}
    gone = {"A": [], "B": []}
    aim = g.choice([0.2, 0.5, 0.8])

    def mine(part):
        return _srt(q for q in content if _in_part0((skey(list(q[0][0])),), part) or not two)

    for _ in range(nsteps):
        part = sched.pick(parts)
        subs, preds, objs = _vocab(part)
        if small:
            subs, preds, objs = subs[:1], preds[:1], objs[:2]
        kind = g.weighted(list(w.items()))
        uid += 1
        op = {"uid": uid, "w": part, "k": kind}
        if simple and g.chance(0.4):
            op["alt"] = True
        if kind == "add":
            op["t"] = [g.pick(subs), g.pick(preds), g.pick(objs)]
            op["g"] = g.randrange(ngraphs)
            if gone[part] and g.chance(aim):
                q = g.pick(gone[part])  # re-add something removed earlier
                op["t"], op["g"] = [list(x) for x in q[0]], q[1]
            op["via"] = g.choice(["graph", "cg", "store"])
            if veto_mode and g.chance(0.2):
                op["veto"] = True  # fault: a TripleAddedEvent subscriber of the wrapped store raises during this add
            content.add((tuple(map(_tt, op["t"])), op["g"]))
        elif kind == "addN":
            op["q"] = [[g.pick(subs), g.pick(preds), g.pick(objs), g.randrange(ngraphs)] for _ in range(g.randint(1, 4))]
            op["via"] = g.choice(["graph", "cg"])
            op["g"] = g.randrange(ngraphs)
            if g.chance(0.25):
                op["fail_after"] = g.randrange(len(op["q"]) + 1)  # fault: the batch source raises after k quads
        elif kind == "remove":
            op["t"] = [g.pick(subs), g.pick(preds), g.pick(objs)]
            op["g"] = g.choice([None] + list(range(ngraphs)) * 2)
            m = mine(part)
            if m and g.chance(aim):
                q = g.pick(m)  # aim at a quad that is present
                op["t"] = [list(x) for x in q[0]]
                op["g"] = g.choice([None, q[1], q[1]])
            op["via"] = g.choice(["graph", "cg", "store", "handed-out"])
            if veto_mode and g.chance(0.2):
                op["veto"] = True  # fault: a TripleRemovedEvent subscriber of the wrapped store raises during this removal (if the store announces removals)
            for q in [q for q in content if q[0] == tuple(map(_tt, op["t"])) and (op["g"] is None or q[1] == op["g"])]:
                content.discard(q)
                gone[part].append(q)
        elif kind == "wild":
            # at least s or p stays bound when two wrappers share the base, so the pattern stays inside the partition
            shape = g.choice(["s??", "?p?", "sp?", "s?o", "?po"] + ([] if two else ["???", "??o"]))
            s, p, o = g.pick(subs), g.pick(preds), g.pick(objs)
            op["k"] = "remove"
            op["t"] = [s if shape[0] != "?" else None, p if shape[1] != "?" else None, o if shape[2] != "?" else None]
            op["g"] = g.choice([None] + list(range(ngraphs)))
            op["via"] = g.choice(["graph", "cg", "store", "handed-out"])
            for q in [q for q in content if all(op["t"][i] is None or _tt(op["t"][i]) == q[0][i] for i in range(3)) and (op["g"] is None or q[1] == op["g"])]:
                content.discard(q)
                gone[part].append(q)
        elif kind == "sparql":
            # a remove by another route: SPARQL Update through a ConjunctiveGraph on the wrapper (single wrapper only: CLEAR / DROP are
            # not confined to one partition)
            op["what"] = g.choice(["clear-graph", "drop-graph", "delete-where", "clear-all"] if not two else ["delete-where"])
            op["t"] = [g.pick(subs), g.pick(preds), None]
            op["g"] = g.randrange(ngraphs)
        elif kind == "set":
            op["t"] = [g.pick(subs), g.pick(preds), g.pick(objs)]
            op["g"] = g.randrange(ngraphs)
        elif kind in ("commit", "rollback"):
            op["via"] = g.choice(["graph", "cg", "store"])
            op["g"] = g.randrange(ngraphs)
            if g.chance(0.25):
                op["twice"] = True
        ops.append(op)
    # make sure histories end in a transaction boundary often
    if g.chance(0.7):
        uid += 1
        ops.append({"uid": uid, "w": sched.pick(parts), "k": "rollback", "via": "store", "g": 0})
    if simple:
        ops[:] = [op for op in ops if op["k"] != "sparql"]
        for op in ops:
            if op.get("via") == "cg":
                op["via"] = "graph"
            if op.get("g") is None and op["k"] == "remove":
                op["g"] = 0
    return {"property": ID, "config": {"two": two, "graphs": graphs, "init": init, "base": "simple" if simple else "memory", "veto_mode": veto_mode, "announce": veto_mode and g.chance(0.5)}, "ops": ops}


def _tt(spec):
    return tuple(spec)


def nontrivial(trace, res):
    return res.get("probes", {}).get("rollback-nonempty", 0) > 0


def _in_part0(q, part):
    s = q[0]
    return s[1].startswith("http://ex.org/" + part) or s == ("b", part + "b")


def execute(trace, ctx):
    from rdflib import BNode, ConjunctiveGraph, Graph, URIRef
    from rdflib.plugins.stores.auditable import AuditableStore
    from rdflib.plugins.stores.memory import Memory

    cfg = trace["config"]
    graphs = cfg["graphs"]

    def _in_part(q, part):
        # with a single wrapper its partition is the whole store
        return _in_part0(q, part) if cfg["two"] else part == "A"

    simple = cfg.get("base") == "simple"
    if simple:
        from rdflib.plugins.stores.memory import SimpleMemory

        base = SimpleMemory()
    else:
        base = Memory()
        if cfg.get("announce"):
            # a store that announces removals the way Memory announces additions: event first, then the indexes
            from rdflib.store import Store

            class AnnouncingMemory(Memory):
                def remove(self, triple_pattern, context=None):
                    Store.remove(self, triple_pattern, context)
                    super().remove(triple_pattern, context)

            base = AnnouncingMemory()
            ctx.probe("base-store-announces-removals")
    model = set()  # (skey s, skey p, skey o, skey g)
    for s, p, o, gi in cfg["init"]:
        Graph(base, T(graphs[gi])).add((T(s), T(p), T(o)))
        model.add((skey(s), skey(p), skey(o), skey(graphs[gi])))
    class SubscriberVeto(Exception):
        pass

    armed = [False]
    armed_rm = [False]
    if cfg.get("veto_mode") and not simple:
        from rdflib.store import TripleAddedEvent

        def on_add(event):
            if armed[0]:
                armed[0] = False
                ctx.fault("subscriber-raised")
                raise SubscriberVeto()

        base.dispatcher.subscribe(TripleAddedEvent, on_add)
        # the same for removals (the default store announces none today: the handler is there in case it does)
        from rdflib.store import TripleRemovedEvent

        def on_remove(event):
            if armed_rm[0]:
                armed_rm[0] = False
                ctx.fault("subscriber-raised-on-remove")
                raise SubscriberVeto()

        base.dispatcher.subscribe(TripleRemovedEvent, on_remove)
    wrappers = {}
    snap = {}
    for part in ("A", "B"):
        wrappers[part] = AuditableStore(base)
        snap[part] = {q for q in model if _in_part(q, part)}

    def observe():
        got = set()
        for gs in graphs:
            for t in Graph(base, T(gs)):
                got.add(tkey(t) + (skey(gs),))
        if simple:
            return got, got
        got2 = set()
        for s, p, o, c in ConjunctiveGraph(base).quads((None, None, None)):
            got2.add(tkey((s, p, o)) + (tkey((c.identifier,))[0],))
        return got, got2

    def sweep(where):
        got, got2 = observe()
        ctx.check(got == model, "C18.content", lambda: f"{where}: store content differs from model: missing={_srt(model - got)} extra={_srt(got - model)}")
        ctx.check(got2 == model, "C18.content-quads", lambda: f"{where}: quads() differ from model: missing={_srt(model - got2)} extra={_srt(got2 - model)}")

    def matches(q, t, gkey):
        return all(t[i] is None or skey(t[i]) == q[i] for i in range(3)) and (gkey is None or q[3] == gkey)

    sweep("initial")
    dirty_since = {"A": False, "B": False}
    for op in trace["ops"]:
        part = op["w"]
        if part == "B" and not cfg["two"]:
            continue
        st = wrappers[part]
        k = op["k"]
        ctx.op(part, k)
        gname = graphs[op["g"] % len(graphs)] if op.get("g") is not None else None
        via = op.get("via", "graph")
        # a store without contexts holds one graph whatever a handle on it is called: some operations come through a handle with
        # another identifier
        hid = T(gname) if gname is not None else None
        if simple and op.get("alt") and gname is not None:
            hid = URIRef(EX + "another-name-for-the-one-graph") if op["uid"] % 2 else BNode()
            ctx.probe("context-unaware-base-handle-with-another-identifier")
        if via == "handed-out" and (simple or gname is None):
            via = "graph" if gname is not None else "store"
        if k == "add":
            t = op["t"]
            q = (skey(t[0]), skey(t[1]), skey(t[2]), skey(gname))
            if q in model:
                ctx.probe("noop-add")
            elif q in snap[part]:
                ctx.probe("readd-of-removed-preexisting")
            triple = (T(t[0]), T(t[1]), T(t[2]))
            veto = op.get("veto") and cfg.get("veto_mode") and not simple
            armed[0] = bool(veto)
            try:
                if via == "graph":
                    Graph(st, hid).add(triple)
                elif via == "cg":
                    ConjunctiveGraph(st, identifier=T(graphs[0])).add(triple + (Graph(st, T(gname)),))
                else:
                    st.add(triple, Graph(st, hid))
            except SubscriberVeto:
                ctx.probe("add-interrupted-by-subscriber")
            armed[0] = False
            if veto:
                # the interrupted add may or may not have taken effect; the store says which - rollback must undo it either way
                if triple in Graph(base, T(gname)):
                    model.add(q)
            else:
                model.add(q)
        elif k == "addN":
            fa = op.get("fail_after")
            qspecs = op["q"] if fa is None else op["q"][:fa]

            class SourceDied(Exception):
                pass

            def feed(quads):
                for q in quads[: fa if fa is not None else len(quads)]:
                    yield q
                if fa is not None:
                    ctx.fault("batch-source-raised")
                    raise SourceDied()

            if via == "graph":
                # Graph.addN keeps only quads whose context *is* this graph (identity of the identifier), so hand it the handle itself
                me = Graph(st, T(gname))
                quads = [(T(s), T(p), T(o), me if skey(graphs[gi % len(graphs)]) == skey(gname) else Graph(st, T(graphs[gi % len(graphs)]))) for s, p, o, gi in op["q"]]
                try:
                    me.addN(feed(quads))
                except SourceDied:
                    ctx.probe("batch-died-midway")
                for s, p, o, gi in qspecs:
                    # Graph.addN keeps only quads whose context is this graph
                    if skey(graphs[gi % len(graphs)]) == skey(gname):
                        model.add((skey(s), skey(p), skey(o), skey(gname)))
            else:
                quads = [(T(s), T(p), T(o), Graph(st, T(graphs[gi % len(graphs)]))) for s, p, o, gi in op["q"]]
                try:
                    ConjunctiveGraph(st, identifier=T(graphs[0])).addN(feed(quads))
                except SourceDied:
                    ctx.probe("batch-died-midway")
                for s, p, o, gi in qspecs:
                    model.add((skey(s), skey(p), skey(o), skey(graphs[gi % len(graphs)])))
        elif k == "remove":
            t = op["t"]
            gkey = skey(gname) if gname is not None else None
            hit = {q for q in model if matches(q, t, gkey)}
            if not hit:
                ctx.probe("noop-remove")
            if len({q[3] for q in hit}) > 1:
                ctx.probe("wildcard-remove-multi-graph")
            if any(q not in snap[part] for q in hit):
                ctx.probe("remove-of-added")
            pat = (T(t[0]), T(t[1]), T(t[2]))
            armed_rm[0] = bool(op.get("veto") and cfg.get("veto_mode") and not simple)
            try:
                if gname is not None:
                    if via == "graph":
                        Graph(st, hid).remove(pat)
                    elif via == "cg" and gname == graphs[0] and op["uid"] % 2:
                        # the graph of the quad is the conjunctive graph object itself: its own (default) graph is meant
                        ctx.probe("remove-with-the-conjunctive-graph-as-graph")
                        cgx = ConjunctiveGraph(st, identifier=T(graphs[0]))
                        cgx.remove(pat + (cgx,))
                    elif via == "cg":
                        ConjunctiveGraph(st, identifier=T(graphs[0])).remove(pat + (Graph(st, T(gname)),))
                    elif via == "handed-out":
                        # through the Graph objects that quads() / contexts() of a ConjunctiveGraph on the wrapper hand out
                        ctx.probe("write-through-handed-out-graph")
                        cgx = ConjunctiveGraph(st, identifier=T(graphs[0]))
                        if op["uid"] % 2:
                            for s_, p_, o_, c_ in list(cgx.quads(pat)):
                                if c_ is not None and c_.identifier == T(gname):
                                    c_.remove((s_, p_, o_))
                        else:
                            for c_ in list(cgx.contexts()):
                                if c_.identifier == T(gname):
                                    c_.remove(pat)
                    else:
                        st.remove(pat, Graph(st, hid))
                else:
                    if via == "store":
                        st.remove(pat, None)
                    else:
                        ConjunctiveGraph(st, identifier=T(graphs[0])).remove(pat)
            except SubscriberVeto:
                ctx.probe("remove-interrupted-by-subscriber")
                # the store says what the refused removal did; rollback must restore the snapshot either way
                got_now, _ = observe()
                hit = {q for q in hit if q not in got_now}
            armed_rm[0] = False
            model -= hit
        elif k == "sparql":
            import rdflib.plugins.sparql as sp

            sp.SPARQL_DEFAULT_GRAPH_UNION = False
            gn = T(gname)
            gkey_ = skey(gname)
            t = op["t"]
            w = op["what"]
            if gn.__class__.__name__ != "URIRef":
                continue
            cgw = ConjunctiveGraph(st, identifier=T(graphs[0]))
            if w == "clear-graph":
                cgw.update(f"CLEAR GRAPH <{gn}>")
                model -= {q for q in model if q[3] == gkey_}
            elif w == "drop-graph":
                cgw.update(f"DROP SILENT GRAPH <{gn}>")
                model -= {q for q in model if q[3] == gkey_}
            elif w == "clear-all":
                cgw.update("CLEAR ALL")
                model.clear()
            else:
                cgw.update(f"DELETE WHERE {{ GRAPH <{gn}> {{ <{t[0][1]}> <{t[1][1]}> ?o }} }}" if t[0][0] == "u" else f"DELETE WHERE {{ GRAPH <{gn}> {{ ?s <{t[1][1]}> ?o }} }}")
                if t[0][0] == "u":
                    model -= {q for q in model if q[3] == gkey_ and q[0] == skey(t[0]) and q[1] == skey(t[1])}
                else:
                    model -= {q for q in model if q[3] == gkey_ and q[1] == skey(t[1])}
            ctx.probe("sparql-update-through-wrapper")
        elif k == "set":
            t = op["t"]
            Graph(st, hid).set((T(t[0]), T(t[1]), T(t[2])))
            gkey = skey(gname)
            model -= {q for q in model if q[0] == skey(t[0]) and q[1] == skey(t[1]) and q[3] == gkey}
            model.add((skey(t[0]), skey(t[1]), skey(t[2]), gkey))
        elif k in ("commit", "rollback"):
            other = "B" if part == "A" else "A"
            reps = 2 if op.get("twice") else 1
            for rep in range(reps):
                before_other = {q for q in model if not _in_part(q, part)}
                mine = {q for q in model if _in_part(q, part)}
                if k == "rollback":
                    if mine != snap[part]:
                        ctx.probe("rollback-nonempty")
                    if rep == 1:
                        ctx.probe("double-rollback")
                    if cfg["two"] and {q for q in model if _in_part(q, other)} != snap[other]:
                        ctx.probe("rollback-while-other-wrapper-dirty")
                    if dirty_since[part] is None:
                        ctx.probe("commit-then-rollback")
                    new_mine = set(snap[part])
                else:
                    new_mine = mine
                if via == "graph":
                    getattr(Graph(st, T(gname)), k)()
                elif via == "cg":
                    getattr(ConjunctiveGraph(st, identifier=T(graphs[0])), k)()
                else:
                    getattr(st, k)()
                model.clear()
                model |= before_other | new_mine
                snap[part] = set(new_mine)
                dirty_since[part] = None if k == "commit" else False
                got, _ = observe()
                got_mine = {q for q in got if _in_part(q, part)}
                got_other = {q for q in got if not _in_part(q, part)}
                name = "C18.rollback-restores" if k == "rollback" else "C18.commit-keeps"
                ctx.check(got_mine == new_mine, name, lambda: f"after {k} (#{rep + 1}) of {part}: partition content missing={_srt(new_mine - got_mine)} extra={_srt(got_mine - new_mine)}", op=op)
                ctx.check(got_other == before_other, "C18.other-wrapper-intact", lambda: f"after {k} of {part}: other content missing={_srt(before_other - got_other)} extra={_srt(got_other - before_other)}")
        else:
            raise ValueError(k)
        if k not in ("commit", "rollback"):
            dirty_since[part] = True
        ctx.log(k, f"{part} {op.get('t')} {op.get('g')} |model|={len(model)}")
        ctx.state(_srt(model), _srt(snap["A"]), _srt(snap["B"]))
        sweep(f"after op uid={op['uid']} {k}")


def simplify(trace):
    """per-operation and configuration simplification candidates (each is a full trace)"""
    import copy

    ops = trace["ops"]
    for i, op in enumerate(ops):
        if op.get("twice"):
            t = copy.deepcopy(trace)
            del t["ops"][i]["twice"]
            yield t
        if op.get("via") not in (None, "graph") and op["k"] in ("add", "commit", "rollback"):
            t = copy.deepcopy(trace)
            t["ops"][i]["via"] = "graph" if op["k"] == "add" else "store"
            if t["ops"][i]["via"] != op.get("via"):
                yield t
        if op["k"] == "addN" and len(op["q"]) > 1:
            for j in range(len(op["q"])):
                t = copy.deepcopy(trace)
                del t["ops"][i]["q"][j]
                yield t
    if trace["config"]["init"]:
        for j in range(len(trace["config"]["init"])):
            t = copy.deepcopy(trace)
            del t["config"]["init"][j]
            yield t
    if trace["config"]["two"] and not any(op["w"] == "B" for op in ops):
        t = copy.deepcopy(trace)
        t["config"]["two"] = False
        yield t
