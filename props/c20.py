"""C20 - a graph backed by a SPARQL endpoint mirrors and updates the endpoint faithfully.

Two parties: the client (real SPARQLUpdateStore with its _edits queue, under Graph / ConjunctiveGraph handles) and an
in-process loopback endpoint (a backing Dataset answered by rdflib's own engine) joined by a simulated HTTP transport
behind sparqlconnector.urlopen.  Tasks: a writer client and lazy read iterators which the scheduler opens and later steps.
Faults (separate configuration): HTTP 500/503, connection refused before delivery, response lost after the endpoint
applied the request, response body truncated at byte k.
Oracle: backing dataset == transactional reference model after every event; every completed read == model answer.
"""
from __future__ import annotations

import io
import re
import urllib.parse

from sim import kernel
from sim.rng import Stream
from sim.terms import EX, XSD, T, key, skey, u

ID = "C20"
LEVEL = "fault_enumeration"
TIERS = {"quick": {"runs": 3200, "wall_cap": 600}, "thorough": {"runs": 40000, "wall_cap": 3300}}
RULE = (
    "each evaluation is one seeded history (<=30 quick / <=50 thorough events) of a client driving SPARQLUpdateStore (autocommit on/off x "
    "dirty_reads on/off x GET/POST/POST_FORM x XML/JSON results x context_aware on/off) through Graph and ConjunctiveGraph handles: add, addN over "
    "several graphs, remove in all 8 pattern shapes, remove_graph, update(text) incl. a contextual graph, Graph.parse of a document that may be malformed midway, commit, rollback, and lazy reads "
    "(triples in 8 shapes -> SELECT/ASK, len, membership, contexts, query) that the scheduler opens and steps later, against an in-process "
    "endpoint that executes every request text with rdflib's own engine on a backing Dataset (the IRI rdflib uses internally for its default graph is an ordinary named graph there); terms with quotes, backslashes, newlines, "
    "non-ASCII and non-BMP characters, language tags, datatypes, empty and falsy values; after every event the backing dataset is compared "
    "with a transactional reference model (endpoint dataset + pending list) and every completed read with the model's answer; fault runs "
    "inject one or more transport faults at seeded request indices (thorough: every request index of a sampled history) and demand: the call "
    "raises, no row is returned that the endpoint does not hold, unacknowledged edits stay queued until commit or rollback; distinct = "
    "distinct trace digest; non-trivial = at least 4 writes reached the endpoint and at least 3 reads were answered"
)
REAL = ["rdflib.plugins.stores.sparqlstore.SPARQLStore/SPARQLUpdateStore", "rdflib.plugins.stores.sparqlconnector.SPARQLConnector", "SPARQL XML/JSON result writers and readers", "rdflib SPARQL engine (as the endpoint's evaluator)", "rdflib.graph.Graph/ConjunctiveGraph over the store"]
STUB = ["HTTP transport (urlopen replaced by the loopback endpoint; nothing real is opened)", "CREATE GRAPH shim on the endpoint (rdflib's engine does not implement CREATE)"]
ASSUMPTIONS = [
    "the endpoint evaluates with the default graph being the real default graph (SPARQL_DEFAULT_GRAPH_UNION off on the endpoint side)",
    "trusted base: rdflib's own query/update engine is the endpoint; a defect there can surface under this id (the replay shows the request text)",
    "contexts(): every non-empty named graph must be listed and nothing unknown; whether empty graphs are listed is not constrained",
    "duplicated delivery is not injected on its own; after a lost response the retried batch is applied again and the model follows the endpoint",
]
PROBES = ["read-opened-before-write-consumed-after", "commit-carried-2+edits", "rollback-discarded-edits", "read-flushed-pending", "dirty-read-skipped-pending", "falsy-literal-roundtrip", "awkward-literal-roundtrip", "bnode-refused", "fault-refused", "fault-http-5xx", "fault-lost-response", "fault-truncated-body", "commit-retried-after-fault", "remove-wildcard", "contextual-update"]
KNOWN_PREDICATES = {}

QUERY_URL = "http://sim.example/sparql/query"
UPDATE_URL = "http://sim.example/sparql/update"
DEFAULT = "urn:x-rdflib:default"
GRAPHS = [u("g1"), u("g2")]
LITS = [
    ["l", "plain", None, None],
    ["l", "", None, None],
    ["l", "0", None, XSD + "integer"],
    ["l", "false", None, XSD + "boolean"],
    ["l", 'q"uo\'te', None, None],
    ["l", "back\\slash\\", None, None],
    ["l", "line\nbreak\ttab", None, None],
    ["l", "café € \U0001F600", None, None],
    ["l", "bonjour", "fr", None],
    ["l", "", "en", None],
    ["l", "2020-01-01", None, XSD + "date"],
    ["l", "<&>", None, None],
    ["l", "cr\rhere", None, None],
    ["l", "crlf\r\nline\r\nend", None, None],
    ["l", " padded ", None, None],
    ["l", "a \" } b { 'c", None, None],
    ["l", "\tindented and ending in a newline\n", None, None],
    ["l", " ", "en", None],
    ["l", "multi\nline ending in backslash-quote \\\"", None, None],
    ["l", "back\\slash t\\tab n\\new", None, None],
    ["l", "a small graph here", None, None],
    ["l", "WHERE { ?s ?p ?o } GRAPH", None, None],
    ["l", "s", None, None],
    ["l", "p", None, None],
    ["l", "o", None, None],
]
SUBS = [u("s1"), u("s2"), u("café"), u("graph/7")]
PREDS = [u("p"), u("q")]
OBJS = [u("s1"), u("o")] + LITS


def _srt(xs):
    return sorted(xs, key=repr)


def warm():
    import rdflib  # noqa
    import rdflib.plugins.sparql  # noqa
    import rdflib.plugins.stores.sparqlstore  # noqa
    from rdflib import plugin
    from rdflib.query import ResultParser, ResultSerializer

    for f in ("xml", "json"):
        plugin.get(f, ResultSerializer)
        plugin.get(f, ResultParser)
    from rdflib.plugins.sparql.processor import prepareQuery, prepareUpdate

    prepareQuery("SELECT ?s WHERE { ?s ?p ?o }")
    prepareUpdate("INSERT DATA { <urn:a> <urn:b> <urn:c> }")


UPDATES = ["insert-data", "delete-where", "copy-p-to-q", "delete-insert", "insert-initbinding", "two-ops-initbinding", "filter-initbinding"]


def generate(seed, tier):
    g = Stream(seed, "gen")
    sched = Stream(seed, "sched")
    cfg = {
        "autocommit": g.chance(0.5),
        "dirty_reads": g.chance(0.3),
        "method": g.choice(["GET", "POST", "POST_FORM"]),
        "format": g.choice(["xml", "json"]),
        "context_aware": g.chance(0.8),
        "init": [[g.pick(SUBS), g.pick(PREDS), g.pick(OBJS), g.choice([None, 0, 1])] for _ in range(g.randint(0, 6))],
        "extra_params": g.chance(0.3),
        # the store itself binds the prefix that some queries pass through initNs - to another namespace: initNs is the nearer one
        "store_binds_exq": g.chance(0.3),
        "faults": [],
    }
    nsteps = g.randint(4, 30 if tier == "quick" else 50)
    objs = OBJS if g.chance(0.7) else OBJS[:6]
    ops = []
    live = []
    nr = 0

    recent = []

    def tri():
        # aim at triples touched earlier in this history (re-add after remove, duplicate adds inside one batch)
        if recent and g.chance(0.35):
            return list(g.pick(recent))
        t = [g.pick(SUBS), g.pick(PREDS), g.pick(objs)]
        recent.append(t)
        return t

    def pat():
        t = tri()
        m = g.randrange(8)
        return [t[i] if m >> i & 1 else None for i in range(3)]

    gi = lambda: g.choice([None, 0, 0, 1]) if cfg["context_aware"] else None  # noqa: E731
    for i in range(nsteps):
        uid = i + 1
        if live and sched.chance(0.35):
            r = sched.pick(live)
            k = sched.choice(["step", "step", "drain", "drain", "close"])
            ops.append({"uid": uid, "k": k, "r": r, "n": sched.choice([1, 2])})
            if k != "step":
                live.remove(r)
            continue
        k = g.weighted([("add", 6), ("addN", 2), ("remove", 4), ("remove_graph", 1), ("update", 2), ("commit", 2), ("rollback", 1), ("open", 4), ("len", 2), ("contains", 2), ("contexts", 1), ("query", 2), ("add-bnode", 0.5), ("parse", 1)])
        op = {"uid": uid, "k": k}
        if k == "contexts" and g.chance(0.6):
            op["t"] = tri() if g.chance(0.5) else pat()  # a triple, or a pattern with wildcards
        if k in ("add", "contains"):
            op["t"], op["g"] = tri(), gi()
        elif k == "addN":
            op["q"] = [tri() + [gi()] for _ in range(g.randint(1, 4))]
        elif k == "remove":
            op["t"], op["g"] = pat(), gi()
            if cfg["context_aware"] and g.chance(0.15):
                op["g"] = "all"  # no graph given (ConjunctiveGraph.remove(triple)): the pattern goes from every graph
        elif k == "remove_graph":
            if not cfg["context_aware"]:
                continue  # a store that is not graph aware has no remove_graph
            op["g"] = g.choice([0, 1])
        elif k == "update":
            op["what"], op["t"], op["g"] = g.pick(UPDATES), tri(), gi()
        elif k == "open":
            nr += 1
            op["r"], op["t"], op["g"] = nr, pat(), gi()
            live.append(nr)
        elif k in ("len", "query"):
            op["g"] = gi()
            op["t"] = pat()
            if k == "query" and g.chance(0.4):
                free = [i for i in range(3) if op["t"][i] is None]
                if free:
                    i = g.choice(free)
                    op["ib"] = [i, g.pick(SUBS) if i == 0 else g.pick(PREDS) if i == 1 else g.pick(objs)]
                    free2 = [j for j in free if j != i]
                    if free2 and g.chance(0.5):
                        j = g.choice(free2)
                        op["ib2"] = [j, g.pick(SUBS) if j == 0 else g.pick(PREDS) if j == 1 else g.pick(objs)]
            if k == "query" and g.chance(0.3):
                op["prefix"] = True
        elif k == "add-bnode":
            op["t"], op["g"] = [["b", "x1"], g.pick(PREDS), g.pick(objs)], gi()
        elif k == "parse":
            # Graph.parse() into the store-backed graph; in half of the cases the document is malformed from some line on
            op["lines"], op["g"] = [tri() for _ in range(g.randint(1, 3))], gi()
            op["bad"] = g.randrange(len(op["lines"]) + 1) if g.chance(0.5) else None
        ops.append(op)
    ops.append({"uid": nsteps + 1, "k": "commit"})
    if g.chance(0.4):
        # fault configuration: fault at the n-th request that reaches the transport
        for _ in range(g.randint(1, 3)):
            cfg["faults"].append({"at": g.randint(1, max(2, nsteps)), "kind": g.choice(["refuse", "http-500", "http-503", "lost-response", "truncate"]), "frac": g.random()})
    if tier == "thorough" and g.chance(0.06):
        cfg["enumerate"] = True
        ops[:] = ops[:14] + [ops[-1]]
    return {"property": ID, "config": cfg, "ops": ops}


def nontrivial(trace, res):
    p = res.get("probes", {})
    return p.get("write-reached-endpoint", 0) >= 4 and p.get("read-answered", 0) >= 3


# ----------------------------------------------------------------------------- the loopback endpoint


# An endpoint is not rdflib: the IRI under which rdflib's Dataset keeps its default graph is, there, the name of an ordinary
# named graph.  The loopback endpoint answers with rdflib's engine on a Dataset, so that name is moved aside on the way in.
FOREIGN_DEFAULT = "urn:x-endpoint:the-named-graph-that-has-the-name-rdflib-uses-for-its-default-graph"


def _aside(text):
    return text.replace("<" + DEFAULT + ">", "<" + FOREIGN_DEFAULT + ">")


class Endpoint:
    def __init__(self, ctx, faults):
        from rdflib import Dataset

        self.ds = Dataset()
        self.ctx = ctx
        self.faults = {f["at"]: f for f in faults}
        self.nreq = 0
        self.applied_log = []  # texts of update requests really applied
        self.acked = 0  # update requests whose response reached the client
        self.last = None

    def __call__(self, req, *a, **kw):
        import email.message
        import urllib.error
        import urllib.response

        import rdflib.plugins.sparql as sp

        self.nreq += 1
        fault = self.faults.get(self.nreq)
        url = req.full_url
        base, _, qs = url.partition("?")
        params = dict(urllib.parse.parse_qsl(qs, keep_blank_values=True))
        headers = {k.lower(): v for k, v in req.header_items()}
        body = req.data
        is_update = base == UPDATE_URL
        self.last = {"n": self.nreq, "update": is_update, "fault": fault["kind"] if fault else None, "applied": False}
        if fault and fault["kind"] == "refuse":
            self.ctx.fault("refused")
            self.ctx.probe("fault-refused")
            raise urllib.error.URLError("simulated: connection refused")
        if fault and fault["kind"].startswith("http-"):
            self.ctx.fault(fault["kind"])
            self.ctx.probe("fault-http-5xx")
            raise urllib.error.HTTPError(url, int(fault["kind"][5:]), "simulated server error", email.message.Message(), io.BytesIO(b"error"))
        sp.SPARQL_DEFAULT_GRAPH_UNION = False
        if is_update:
            text = _aside(body.decode("utf-8"))
            self.apply_update(text)
            self.last["applied"] = True
            self.applied_log.append(text)
            if fault and fault["kind"] in ("lost-response", "truncate"):
                self.ctx.fault("lost-response")
                self.ctx.probe("fault-lost-response")
                raise urllib.error.URLError("simulated: connection reset while reading the response")
            msg = email.message.Message()
            msg["Content-Type"] = "text/plain"
            self.acked += 1
            return urllib.response.addinfourl(io.BytesIO(b"ok"), msg, url, 200)
        # query
        if body is not None:
            ct = headers.get("content-type", "")
            if "sparql-query" in ct:
                q = body.decode("utf-8")
            else:
                form = dict(urllib.parse.parse_qsl(body.decode("utf-8"), keep_blank_values=True))
                q = form.get("query")
                params.update({k: v for k, v in form.items() if k != "query"})
        else:
            q = params.get("query")
        from rdflib import Graph
        from rdflib.term import URIRef

        dg = params.get("default-graph-uri")
        if dg == DEFAULT:
            dg = FOREIGN_DEFAULT
        target = Graph(self.ds.store, URIRef(dg)) if dg else self.ds
        res = target.query(_aside(q))
        accept = headers.get("accept", "")
        fmt = "json" if ("sparql-results+json" in accept and "sparql-results+xml" not in accept) else "xml"
        out = res.serialize(format=fmt)
        if fault and fault["kind"] == "lost-response":
            self.ctx.fault("lost-response")
            self.ctx.probe("fault-lost-response")
            raise urllib.error.URLError("simulated: connection reset while reading the response")
        if fault and fault["kind"] == "truncate":
            self.ctx.fault("truncated-body")
            self.ctx.probe("fault-truncated-body")
            out = out[: max(1, int(len(out) * fault["frac"]))]
        msg = email.message.Message()
        msg["Content-Type"] = ("application/sparql-results+json" if fmt == "json" else "application/sparql-results+xml") + "; charset=utf-8"
        return urllib.response.addinfourl(io.BytesIO(out), msg, url, 200)

    def apply_update(self, text):
        from rdflib.term import URIRef

        for piece in text.split("\n;\n"):
            m = re.fullmatch(r"\s*CREATE\s+(SILENT\s+)?GRAPH\s+<([^>]*)>\s*", piece)
            if m:
                self.ds.graph(URIRef(m.group(2)))  # shim: rdflib's engine does not implement CREATE
            elif piece.strip():
                self.ds.update(piece)

    def quads(self):
        out = set()
        st = self.ds.store
        for c in list(st.contexts()):
            ck = key(c.identifier)
            for (s, p, o), _ in st.triples((None, None, None), c):
                out.add((key(s), key(p), key(o), ck))
        return out


# ----------------------------------------------------------------------------- execution

DEFK = ("u", DEFAULT)


def execute(trace, ctx):
    """thorough tier, `enumerate`: after the fault-free run the same history is re-run once per request index and per fault kind
    (fault enumeration inside a seeded history sample)"""
    cfg = trace["config"]
    if not cfg.get("enumerate"):
        return _execute(trace, ctx)
    import copy as _copy

    base = _copy.deepcopy(trace)
    base["config"]["faults"] = []
    nreq = _execute(base, ctx)
    for n in range(1, nreq + 1):
        for kind in ("refuse", "http-500", "lost-response", "truncate"):
            t = _copy.deepcopy(base)
            t["config"]["faults"] = [{"at": n, "kind": kind, "frac": 0.5}]
            ctx.probe("enumerated-fault-positions")
            _execute(t, ctx)


def _execute(trace, ctx):
    import warnings

    import rdflib.plugins.stores.sparqlconnector as conn
    from rdflib import ConjunctiveGraph, Graph, URIRef
    from rdflib.graph import DATASET_DEFAULT_GRAPH_ID
    from rdflib.plugins.stores.sparqlstore import SPARQLUpdateStore

    warnings.simplefilter("ignore")
    cfg = trace["config"]
    ep = Endpoint(ctx, cfg.get("faults", []))
    kernel.refuse_network(ep)
    conn.urlopen = ep
    extra = {"params": {"client-tag": "sim"}, "headers": {"X-Sim": "1"}} if cfg.get("extra_params") else {}
    store = SPARQLUpdateStore(QUERY_URL, UPDATE_URL, context_aware=cfg["context_aware"], autocommit=cfg["autocommit"], dirty_reads=cfg["dirty_reads"], method=cfg["method"], returnFormat=cfg["format"], **extra)
    if cfg.get("store_binds_exq"):
        store.bind("exq", URIRef("http://elsewhere.example/ns#"))
        ctx.probe("store-level-binding-shadowed-by-initNs")
    faulty = bool(cfg.get("faults"))

    model = {}  # endpoint dataset model: gkey -> set of triple keys
    pending = []  # list of model thunks not yet acknowledged

    def gkey(gi):
        return DEFK if (gi is None or not cfg["context_aware"]) else skey(GRAPHS[gi])

    def handle(gi):
        if gi is None or not cfg["context_aware"]:
            return Graph(store, DATASET_DEFAULT_GRAPH_ID)
        return Graph(store, T(GRAPHS[gi]))

    for s, p, o, gi in cfg["init"]:
        gid = DATASET_DEFAULT_GRAPH_ID if (gi is None or not cfg["context_aware"]) else T(GRAPHS[gi])
        Graph(ep.ds.store, gid).add((T(s), T(p), T(o)))
        model.setdefault(gkey(gi), set()).add((skey(s), skey(p), skey(o)))

    def match(pat, t):
        return all(pat[i] is None or skey(pat[i]) == t[i] for i in range(3))

    def model_quads():
        return {t + (g,) for g, ts in model.items() for t in ts}

    def apply_pending():
        for th in pending:
            th()

    def sync(where, call_raised):
        """after a client call: bring the model in line with what the transport really delivered, then compare"""
        last = ep.last
        got = ep.quads()
        exp = model_quads()
        ctx.check(got == exp, "C20.endpoint-differs", lambda: f"{where}: endpoint dataset differs from the reference model:\n only-model={_srt(exp - got)}\n only-endpoint={_srt(got - exp)}\n last update applied: {ep.applied_log[-1][:600] if ep.applied_log else None}", only_model=_srt(exp - got), only_endpoint=_srt(got - exp), fmt=cfg["format"])

    def transact(fn):
        """run one client call; afterwards bring the model in line with what the transport really delivered:
        every update request the endpoint applied carries the whole client queue (apply the pending thunks once per applied
        request); an acknowledged update request empties the client queue"""
        n_app, n_ack = len(ep.applied_log), ep.acked
        err = got = None
        try:
            got = fn()
        except Exception as e:
            err = e
        for _ in range(len(ep.applied_log) - n_app):
            if len(pending) >= 2:
                ctx.probe("commit-carried-2+edits")
            ctx.probe("write-reached-endpoint", len(pending))
            apply_pending()
        if ep.acked > n_ack:
            pending.clear()
        return got, err

    def transport_fault():
        return ep.last is not None and ep.last.get("fault") is not None

    def write(op, thunk, call):
        """a queued write: model thunk + the client call"""
        pending.append(thunk)
        n0 = len(store._edits or [])
        n_app = len(ep.applied_log)
        _, err = transact(call)
        if err is not None:
            queued = len(store._edits or []) > n0 or len(ep.applied_log) > n_app
            if not queued and thunk in pending:
                pending.remove(thunk)  # the call failed before the edit entered the client's queue
            if not transport_fault():
                ctx.deviation("C20.write-raised", f"{op['k']} raised {type(err).__name__}: {err}", opk=op["k"])
        return err

    def read_flush():
        """reads flush the queue first unless dirty reads are allowed / autocommit"""
        if not cfg["autocommit"] and not cfg["dirty_reads"]:
            if pending:
                ctx.probe("read-flushed-pending")
            return True
        if not cfg["autocommit"] and cfg["dirty_reads"] and pending:
            ctx.probe("dirty-read-skipped-pending")
        return False

    def do_read(fn, expect_fn, where, op):
        """a read: the client may flush its queue first; the answer comes from the endpoint dataset at that moment"""
        must_flush = read_flush()
        had = len(pending)
        n_app0 = len(ep.applied_log)
        got, err = transact(fn)
        if not cfg["autocommit"] and cfg["dirty_reads"]:
            # dirty reads allowed: a read is answered from what the endpoint holds and sends none of the queued edits
            ctx.check(len(ep.applied_log) == n_app0, "C20.dirty-read-flushed", lambda: f"{where}: with dirty_reads on, the read sent {len(ep.applied_log) - n_app0} update request(s) ({had} edit(s) were queued) - they are visible before commit() and rollback() can no longer discard them", opk=op["k"])
        if err is not None:
            if not transport_fault():
                ctx.deviation("C20.read-raised", f"{where} raised {type(err).__name__}: {err}", opk=op["k"], fmt=cfg["format"], method=cfg["method"])
            return None, err
        if must_flush:
            # writes become visible before the next read unless dirty reads are allowed
            ctx.check(not pending, "C20.read-did-not-flush", lambda: f"{where}: the read was answered while {had} queued edit(s) had not been sent (autocommit off, dirty_reads off)", opk=op["k"])
        return (got, expect_fn()), None

    readers = {}
    writes_since = [0]
    sync("initial", False)
    for op in trace["ops"]:
        k = op["k"]
        ctx.op("client", k)
        where = f"op uid={op['uid']} {k} {op.get('t')} g={op.get('g')} [{cfg['method']}/{cfg['format']} autocommit={cfg['autocommit']} dirty={cfg['dirty_reads']}]"
        ep.last = None
        if k == "add":
            t, gk = op["t"], gkey(op["g"])
            tk = tuple(skey(x) for x in t)
            if t[2][0] == "l" and not T(t[2]):
                ctx.probe("falsy-literal-roundtrip")
            elif t[2][0] == "l" and any(c in t[2][1] for c in '"\\\n\r<&') or any(ord(c) > 127 for c in t[2][1]):
                ctx.probe("awkward-literal-roundtrip")
            write(op, lambda tk=tk, gk=gk: model.setdefault(gk, set()).add(tk), lambda: handle(op["g"]).add((T(t[0]), T(t[1]), T(t[2]))))
            writes_since[0] += 1
        elif k == "addN":
            quads = op["q"]

            def th(quads=quads):
                for s, p, o, gi in quads:
                    model.setdefault(gkey(gi), set()).add((skey(s), skey(p), skey(o)))

            cg = ConjunctiveGraph(store, identifier=DATASET_DEFAULT_GRAPH_ID) if cfg["context_aware"] else None
            if cg is not None:
                # graph given by identifier (a Graph object as context makes ConjunctiveGraph.addN read that graph back first)
                write(op, th, lambda: cg.addN([(T(s), T(p), T(o), handle(gi).identifier) for s, p, o, gi in quads]))
            else:
                write(op, th, lambda: store.addN([(T(s), T(p), T(o), handle(gi)) for s, p, o, gi in quads]))
            writes_since[0] += 1
        elif k == "remove" and op["g"] == "all":
            t = op["t"]
            ctx.probe("remove-without-graph")

            def th(t=t):
                for gk_ in list(model):
                    model[gk_] = {x for x in model[gk_] if not match(t, x)}

            write(op, th, lambda: ConjunctiveGraph(store, identifier=DATASET_DEFAULT_GRAPH_ID).remove((T(t[0]), T(t[1]), T(t[2]))))
            writes_since[0] += 1
        elif k == "remove":
            t, gk = op["t"], gkey(op["g"])
            if None in t:
                ctx.probe("remove-wildcard")

            def th(t=t, gk=gk):
                model[gk] = {x for x in model.get(gk, set()) if not match(t, x)}

            write(op, th, lambda: handle(op["g"]).remove((T(t[0]), T(t[1]), T(t[2]))))
            writes_since[0] += 1
        elif k == "remove_graph":
            gk = gkey(op["g"])

            def th(gk=gk):
                model[gk] = set()

            write(op, th, lambda: store.remove_graph(handle(op["g"])))
            writes_since[0] += 1
        elif k == "update":
            t, gk = op["t"], gkey(op["g"])
            what = op["what"]
            from sim.sparqlref import r_term

            s_, p_, o_ = (r_term(x) for x in t)
            if t[2][0] == "l" and '""' not in t[2][1] and not t[2][1].endswith('"') and op["uid"] % 2 and not (len(t[2]) > 3 and t[2][3]) and not (len(t[2]) > 2 and t[2][2]):
                # the literal spelled as a long string: quotes, braces and line breaks stand in it as they are
                o_ = '"""' + t[2][1].replace("\\", "\\\\") + '"""'
                ctx.probe("update-text-with-long-string")
            upd_kwargs = {}
            if what == "insert-data":
                text = f"INSERT DATA {{ {s_} {p_} {o_} . }}"

                def th(t=t, gk=gk):
                    model.setdefault(gk, set()).add(tuple(skey(x) for x in t))

            elif what == "delete-where":
                text = f"DELETE WHERE {{ {s_} {p_} ?o . }}"

                def th(t=t, gk=gk):
                    model[gk] = {x for x in model.get(gk, set()) if not (x[0] == skey(t[0]) and x[1] == skey(t[1]))}

            elif what == "copy-p-to-q":
                text = f"INSERT {{ ?s <{EX}copied> ?o . }} WHERE {{ ?s {p_} ?o . }}"

                def th(t=t, gk=gk):
                    for x in list(model.get(gk, set())):
                        if x[1] == skey(t[1]) and x[0][0] != "l":
                            model[gk].add((x[0], ("u", EX + "copied"), x[2]))

            elif what == "insert-initbinding":
                # the object comes in through initBindings (the store writes it into the request as a VALUES block)
                from rdflib import Variable

                text = f"INSERT {{ {s_} {p_} ?val . }} WHERE {{ }}"
                upd_kwargs = {"initBindings": {Variable("val"): T(t[2])}}
                ctx.probe("update-with-initBindings")

                def th(t=t, gk=gk):
                    model.setdefault(gk, set()).add(tuple(skey(x) for x in t))

            elif what == "two-ops-initbinding":
                # two operations in one request, the binding holds in both WHERE clauses
                from rdflib import Variable

                text = f"DELETE {{ {s_} {p_} ?val . }} WHERE {{ {s_} {p_} ?val . }} ;\nINSERT {{ ?s <{EX}marked> ?val . }} WHERE {{ ?s {p_} ?val . }}"
                upd_kwargs = {"initBindings": {Variable("val"): T(t[2])}}
                ctx.probe("update-with-initBindings")

                def th(t=t, gk=gk):
                    cur = model.setdefault(gk, set())
                    cur.discard(tuple(skey(x) for x in t))
                    for x in list(cur):
                        if x[1] == skey(t[1]) and x[2] == skey(t[2]):
                            cur.add((x[0], ("u", EX + "marked"), x[2]))

            elif what == "filter-initbinding":
                # the bound variable is used by a FILTER of the WHERE clause
                from rdflib import Variable

                text = f"DELETE {{ ?s {p_} ?o . }} WHERE {{ ?s {p_} ?o . FILTER(sameTerm(?o, ?val)) }}"
                upd_kwargs = {"initBindings": {Variable("val"): T(t[2])}}
                ctx.probe("update-with-initBindings")

                def th(t=t, gk=gk):
                    model[gk] = {x for x in model.get(gk, set()) if not (x[1] == skey(t[1]) and x[2] == skey(t[2]))}

            else:
                text = f"DELETE {{ {s_} {p_} ?o . }} INSERT {{ {s_} {p_} {o_} . }} WHERE {{ OPTIONAL {{ {s_} {p_} ?o . }} }}"

                def th(t=t, gk=gk):
                    model[gk] = {x for x in model.get(gk, set()) if not (x[0] == skey(t[0]) and x[1] == skey(t[1]))}
                    model[gk].add(tuple(skey(x) for x in t))

            if gk != DEFK:
                ctx.probe("contextual-update")
            if op["uid"] % 4 == 0:
                # the text ends in a comment (no line end after it): what is queued after it is still sent
                text += " # done } {" if op["uid"] % 8 else " # done"
                ctx.probe("update-text-ends-in-comment")
            write(op, th, lambda: handle(op["g"]).update(text, **upd_kwargs))
            writes_since[0] += 1
        elif k == "add-bnode":
            t = op["t"]
            before = ep.quads()
            n_edits = len(store._edits or [])
            try:
                handle(op["g"]).add((T(t[0]), T(t[1]), T(t[2])))
                ctx.deviation("C20.bnode-accepted", f"adding a triple with a blank node subject did not raise: {t}")
            except Exception:
                ctx.probe("bnode-refused")
            ctx.check(len(store._edits or []) == n_edits and ep.quads() == before, "C20.bnode-partial", "a refused blank-node write left something behind")
        elif k == "parse":
            if cfg["autocommit"]:
                continue  # (with autocommit every statement is its own request; the queue semantics are what is looked at here)
            lines, bad = op["lines"], op.get("bad")
            good = lines if bad is None else lines[:bad]
            gk = gkey(op["g"])
            from sim import writers

            doc = "".join(writers.WRITERS["nt"]([[a, b, c, None]]).rstrip("\r\n") + "\n" for a, b, c in good)
            if bad is not None:
                doc += "<http://ex.org/s1> <http://ex.org/p> .\n" + "".join(writers.WRITERS["nt"]([[a, b, c, None]]).rstrip("\r\n") + "\n" for a, b, c in lines[bad:])
                ctx.fault("document-malformed-midway")
            for a, b, c in good:
                pending.append(lambda tk=(skey(a), skey(b), skey(c)), gk=gk: model.setdefault(gk, set()).add(tk))
            _, err = transact(lambda: handle(op["g"]).parse(data=doc, format="nt"))
            ctx.log("parse", f"err={type(err).__name__ if err else None} queue={len(store._edits or [])} pending={len(pending)}")
            ctx.probe("parse-into-endpoint-graph")
            if bad is None and err is not None and not transport_fault():
                ctx.deviation("C20.write-raised", f"parse of a well-formed document raised {type(err).__name__}: {err}", opk="parse")
            if bad is not None:
                ctx.check(err is not None, "C20.parse-swallowed", "parse of a malformed N-Triples document did not raise")
            writes_since[0] += 1
        elif k in ("commit", "rollback"):
            if k == "rollback":
                if pending:
                    ctx.probe("rollback-discarded-edits")
                store.rollback()
                pending.clear()
            else:
                had_fault_before = bool(ctx.faults)
                had_pending = bool(pending)
                _, err = transact(store.commit)
                if err is None:
                    if had_pending and had_fault_before:
                        ctx.probe("commit-retried-after-fault")
                elif not transport_fault():
                    ctx.deviation("C20.commit-raised", f"commit raised {type(err).__name__}: {err}\nqueued: {store._edits}")
        elif k == "open":
            g_ = handle(op["g"])
            t = op["t"]
            readers[op["r"]] = {"gen": g_.triples((T(t[0]), T(t[1]), T(t[2]))), "t": t, "gk": gkey(op["g"]), "rows": [], "started": False, "writes": writes_since[0], "exp": None}
            ctx.log("open", f"r{op['r']} {t}")
            continue
        elif k in ("step", "drain", "close"):
            r = readers.get(op["r"])
            if r is None:
                continue
            if k == "close":
                r["gen"].close()
                del readers[op["r"]]
                continue
            n = 10**6 if k == "drain" else op.get("n", 1)
            done = False
            for _ in range(n):
                if not r["started"]:
                    if writes_since[0] > r["writes"]:
                        ctx.probe("read-opened-before-write-consumed-after")

                    def first():
                        return next(r["gen"])

                    def expect(r=r):
                        return {x for x in model.get(r["gk"], set()) if match(r["t"], x)}

                    res, err = do_read(first_or_stop(r), expect, where, op)
                    r["started"] = True
                    if err is not None:
                        readers.pop(op["r"], None)
                        done = None
                        break
                    (item, exp) = res
                    r["exp"] = exp
                    if item is StopIteration:
                        done = True
                        break
                    r["rows"].append(tuple(key(x) for x in item))
                else:
                    try:
                        item = next(r["gen"])
                        r["rows"].append(tuple(key(x) for x in item))
                    except StopIteration:
                        done = True
                        break
            if done:
                rows = r["rows"]
                ctx.probe("read-answered")
                ctx.check(len(rows) == len(set(rows)) and set(rows) == r["exp"], "C20.triples-answer", lambda: f"{where}: triples({r['t']}) on {r['gk']} answered {_srt(rows)}, the endpoint held {_srt(r['exp'])} when the request was made", fmt=cfg["format"], method=cfg["method"])
                readers.pop(op["r"], None)
            elif done is False and faulty and r["exp"] is not None:
                ctx.check(set(r["rows"]) <= r["exp"], "C20.rows-not-held", lambda: f"{where}: rows returned that the endpoint does not hold: {_srt(set(r['rows']) - r['exp'])}")
        elif k == "len":
            gk = gkey(op["g"])
            res, err = do_read(lambda: len(handle(op["g"])), lambda: len(model.get(gk, set())), where, op)
            if res is not None:
                ctx.probe("read-answered")
                ctx.check(res[0] == res[1], "C20.len", lambda: f"{where}: len -> {res[0]}, endpoint holds {res[1]}")
        elif k == "contains":
            t, gk = op["t"], gkey(op["g"])
            tk = tuple(skey(x) for x in t)
            res, err = do_read(lambda: (T(t[0]), T(t[1]), T(t[2])) in handle(op["g"]), lambda: tk in model.get(gk, set()), where, op)
            if res is not None:
                ctx.probe("read-answered")
                ctx.check(res[0] == res[1], "C20.membership", lambda: f"{where}: membership -> {res[0]}, endpoint says {res[1]}", fmt=cfg["format"])
        elif k == "contexts" and op.get("t") and op["t"] != [None, None, None]:
            if not cfg["context_aware"]:
                continue
            t = op["t"]
            if None in t:
                ctx.probe("contexts-of-pattern")
            listed = []

            def ask(t=t):
                listed[:] = [key(c.identifier if isinstance(c, Graph) else c) for c in store.contexts((T(t[0]), T(t[1]), T(t[2])))]
                return set(listed)

            res, err = do_read(ask, lambda: {g for g, ts in model.items() if g != DEFK and any(match(t, x) for x in ts)}, where, op)
            if res is not None:
                ctx.check(len(listed) == len(set(listed)), "C20.contexts-duplicates", lambda: f"{where}: contexts({t}) names a graph more than once: {_srt(listed)}")
            if res is not None:
                ctx.probe("read-answered")
                ctx.check(res[0] == res[1], "C20.contexts-of-triple", lambda: f"{where}: contexts({t}) -> {_srt(res[0])}, the triple is in the named graphs {_srt(res[1])}", falsy=any(x is not None and not T(x) for x in t))
        elif k == "contexts":
            if not cfg["context_aware"]:
                continue
            res, err = do_read(lambda: {key(c.identifier if isinstance(c, Graph) else c) for c in store.contexts()}, lambda: {g for g, ts in model.items() if ts and g != DEFK}, where, op)
            if res is not None:
                ctx.probe("read-answered")
                known = {skey(x) for x in GRAPHS}
                ctx.check(res[1] <= res[0] <= known, "C20.contexts", lambda: f"{where}: contexts() -> {_srt(res[0])}, non-empty named graphs {_srt(res[1])}")
        elif k == "query":
            t, gk = op["t"], gkey(op["g"])
            from sim.sparqlref import r_term

            def rt(x):
                if op.get("prefix") and x[0] == "u" and x[1].startswith(EX) and x[1][len(EX) :].isalnum():
                    return "exq:" + x[1][len(EX) :]
                return r_term(x)

            patt = " ".join(rt(x) if x is not None else "?v%d" % i for i, x in enumerate(t))
            qtext = f"SELECT * WHERE {{ {patt} }}" if None in t else f"ASK {{ {patt} }}"
            ib = op.get("ib")
            kwargs = {}
            if ib:
                from rdflib import Variable

                kwargs["initBindings"] = {Variable("v%d" % ib[0]): T(ib[1])}
                if op.get("ib2"):
                    # two bindings, handed over in an order that is not the alphabetical one of their names
                    b2 = op["ib2"]
                    pair = sorted([(ib[0], ib[1]), (b2[0], b2[1])], reverse=True)
                    kwargs["initBindings"] = {Variable("v%d" % k_): T(v_) for k_, v_ in pair}
                    ctx.probe("query-with-two-initBindings")
            if op.get("prefix"):
                kwargs["initNs"] = {"exq": EX}

            def run():
                res_ = handle(op["g"]).query(qtext, **kwargs)
                if None not in t:
                    return bool(res_.askAnswer)
                return sorted((tuple(sorted((str(kk), key(vv)) for kk, vv in row.asdict().items())) for row in res_), key=repr)

            def expect():
                ib2 = op.get("ib2") if ib else None
                hits = [x for x in model.get(gk, set()) if match(t, x) and (not ib or x[ib[0]] == skey(ib[1])) and (not ib2 or x[ib2[0]] == skey(ib2[1]))]
                if None not in t:
                    return bool(hits)
                return sorted((tuple(sorted(("v%d" % i, x[i]) for i in range(3) if t[i] is None)) for x in hits), key=repr)

            res, err = do_read(run, expect, where, op)
            if res is not None:
                ctx.probe("read-answered")
                ctx.check(res[0] == res[1], "C20.query-answer", lambda: f"{where}: {qtext} -> {res[0]}, endpoint holds {res[1]}", fmt=cfg["format"], method=cfg["method"])
        else:
            raise ValueError(k)
        sync(where, False)
        # the client's queue must hold exactly the unacknowledged edits
        nq = len(store._edits or [])
        ctx.check((nq == 0) == (len(pending) == 0), "C20.queue", lambda: f"{where}: client queue has {nq} statement(s), the model has {len(pending)} unacknowledged edit(s)")
        ctx.log(k, f"{op.get('t')} g={op.get('g')} pending={len(pending)} fault={ep.last.get('fault') if ep.last else None}")
        ctx.state(_srt(model_quads()) if len(model_quads()) < 10 else len(model_quads()), len(pending), len(readers))
    return ep.nreq


def first_or_stop(r):
    def f():
        try:
            return next(r["gen"])
        except StopIteration:
            return StopIteration

    return f


def simplify(trace):
    import copy

    cfg = trace["config"]
    for j in range(len(cfg["init"])):
        t = copy.deepcopy(trace)
        del t["config"]["init"][j]
        yield t
    for j in range(len(cfg.get("faults", []))):
        t = copy.deepcopy(trace)
        del t["config"]["faults"][j]
        yield t
    for f, v in (("method", "GET"), ("format", "xml"), ("autocommit", True), ("dirty_reads", False), ("context_aware", True)):
        if cfg[f] != v:
            t = copy.deepcopy(trace)
            t["config"][f] = v
            yield t
    for i, op in enumerate(trace["ops"]):
        if op["k"] == "addN" and len(op["q"]) > 1:
            for j in range(len(op["q"])):
                t = copy.deepcopy(trace)
                del t["ops"][i]["q"][j]
                yield t
        if op.get("t") and op["k"] in ("remove", "open", "query", "len"):
            for j in range(3):
                if op["t"][j] is not None:
                    t = copy.deepcopy(trace)
                    t["ops"][i]["t"][j] = None
                    yield t
