"""C15 - a query's answer does not depend on how it is posed, prepared or stored.

Centre of gravity: history and configuration.  Tasks: 1-3 prepared Query objects (shared mutable algebra trees), each with
up to 3 live lazy result iterators over the same or different graphs, resumed in scheduler order, some cancelled.
Configurations: the same data in Memory, SimpleMemory, AuditableStore(Memory), ReadOnlyGraphAggregate of a disjoint split,
Dataset default graph.  Oracle (self-referential): every completed evaluation of a prepared object yields the same multiset
as graph.query(text) parsed afresh in isolation; across configurations; and for the rewritings the statement lists.
"""
from __future__ import annotations

import copy
import json

from sim.rng import Stream
from sim.terms import EX, XSD, T, key, u

ID = "C15"
LEVEL = "exploration"
TIERS = {"quick": {"runs": 4000, "wall_cap": 600}, "thorough": {"runs": 50000, "wall_cap": 3300}}
RULE = (
    "each evaluation is one seeded data graph (<=12 triples, falsy and numeric literals, a blank node) held in 5 store configurations, 1-3 "
    "generated queries (BGP, OPTIONAL(+FILTER), UNION, MINUS, FILTER incl. [NOT] EXISTS, BIND, VALUES incl. group-leading, sub-SELECT incl. local variables that reuse outer names, groups with their own FILTER/MINUS, GROUP BY/aggregates, DISTINCT, ORDER BY+LIMIT "
    "on a total key, property paths) each prepared once, and a seeded schedule that opens lazy result iterators of the prepared objects "
    "(same or different graphs, with or without initBindings), resumes them in interleaved order, cancels some, and asks for rewritten forms "
    "(BGP permutation, union/join operand swap, consistent variable renaming, prefix respelling incl. two prefixes for one namespace and local-name escapes, initBindings vs VALUES) and for the other "
    "store configurations; every completed evaluation is compared as a multiset of rows with a freshly parsed evaluation in isolation; "
    "distinct = distinct trace digest; non-trivial = at least 2 evaluations of one prepared object were alive at the same time and at "
    "least 3 comparisons had non-empty answers"
)
REAL = ["rdflib.plugins.sparql (parser, algebra, evaluate, processor.prepareQuery)", "rdflib.paths", "Memory, SimpleMemory, AuditableStore, ReadOnlyGraphAggregate, Dataset"]
STUB = ["uuid4 / random seeded"]
ASSUMPTIONS = [
    "self-oracle: no reference evaluator; a fault that changes every way of posing a query alike is out of reach (that is C04)",
    "graphs are not mutated while queries are alive; RAND/NOW/UUID/BNODE() are not generated",
    "initBindings are only generated for variables bound by the outermost basic graph pattern and not used in sub-queries (the statement's side condition)",
]
PROBES = ["two-live-iterators-of-one-prepared-query", "iterator-resumed-after-another-evaluation-started", "same-prepared-query-on-two-graphs", "initBindings-evaluation", "reader-cancelled", "nonempty-comparison", "rewrite-permute-bgp", "rewrite-swap-union", "rewrite-swap-join", "rewrite-rename-vars", "rewrite-prefix", "rewrite-values-vs-initbindings", "prefix-from-initNs", "config-aggregate", "config-simple", "config-auditable", "config-dataset"]
KNOWN_PREDICATES = {}

P, Q, R_ = EX + "p", EX + "q", EX + "r"


def _srt(xs):
    return sorted(xs, key=repr)


def warm():
    import rdflib  # noqa
    import rdflib.plugins.sparql  # noqa
    import rdflib.plugins.stores.auditable  # noqa
    from rdflib.plugins.sparql.processor import prepareQuery

    prepareQuery("SELECT * WHERE { ?s ?p ?o OPTIONAL { ?o <urn:x> ?z } FILTER(?s != ?o) }")


# ----------------------------------------------------------------------------- query AST -> text

V = lambda n: ["v", n]  # noqa: E731


EX2 = "http://other.example/ns#"


def r_term(t, st):
    if t[0] == "v":
        return "?" + st["ren"].get(t[1], t[1])
    if t[0] == "u":
        if st["prefix"] and t[1].startswith(EX):
            # local part as a prefixed name demands it: reserved punctuation behind a backslash, %HH as it stands
            local = "".join("\\" + ch if ch in "~!$&'()*+,;=/?#@" else ch for ch in t[1][len(EX) :])
            if st["prefix"] is True:
                return "ex:" + local
            # two prefixes for one namespace in one query: both declared, or one declared and one bound on the graph
            first = "gb:" if st["prefix"] == "graphbound" else "ex:"
            if st["prefix"] == "empty-first":
                # the empty prefix and a named one for the same namespace, the empty one declared first
                return (":" if sum(map(ord, local)) % 2 else "ex:") + local
            return (first if sum(map(ord, local)) % 2 else "ey:") + local
        if st.get("ns") and t[1].startswith(EX):
            return "<" + st["ns"] + t[1][len(EX) :] + ">"
        return "<" + t[1] + ">"
    if t[0] == "path":
        return t[1].replace("P", r_term(["u", P], st)).replace("Q", r_term(["u", Q], st)).replace("R", r_term(["u", R_], st))
    if t[0] == "l":
        lex = t[1].replace("\\", "\\\\").replace('"', '\\"')
        if len(t) > 3 and t[3] == XSD + "integer":
            return lex
        s = '"' + lex + '"'
        if len(t) > 2 and t[2]:
            return s + "@" + t[2]
        if len(t) > 3 and t[3]:
            return s + "^^<" + t[3] + ">"
        return s
    raise ValueError(t)


def r_expr(e, st):
    op = e[0]
    if op in ("=", "!=", "<", ">"):
        return f"({r_term(e[1], st)} {op} {r_term(e[2], st)})"
    if op == "bound":
        return f"bound({r_term(V(e[1]), st)})"
    if op == "!bound":
        return f"(!bound({r_term(V(e[1]), st)}))"
    if op == "isIRI":
        return f"isIRI({r_term(V(e[1]), st)})"
    if op in ("exists", "notexists"):
        return ("NOT EXISTS" if op == "notexists" else "EXISTS") + " { " + " ".join(f"{r_term(a, st)} {r_term(b, st)} {r_term(c, st)} ." for a, b, c in e[1]) + " }"
    raise ValueError(op)


def r_elems(elems, st):
    out = []
    for e in elems:
        t = e["t"]
        if t == "bgp":
            out.append(" ".join(f"{r_term(s, st)} {r_term(p, st)} {r_term(o, st)} ." for s, p, o in e["triples"]))
        elif t == "group":
            out.append("{ " + r_elems(e["p"], st) + " }")
        elif t == "optional":
            out.append("OPTIONAL { " + r_elems(e["p"], st) + " }")
        elif t == "union":
            out.append("{ " + r_elems(e["a"], st) + " } UNION { " + r_elems(e["b"], st) + " }")
        elif t == "minus":
            out.append("MINUS { " + r_elems(e["p"], st) + " }")
        elif t == "filter":
            out.append("FILTER " + r_expr(e["e"], st))
        elif t == "bind":
            out.append(f"BIND({'IRI(' + json.dumps(e['e'][1]) + ')' if e['e'][0] == 'iri' else r_term(e['e'], st)} AS {r_term(V(e['var']), st)})")
        elif t == "values":
            out.append(f"VALUES {r_term(V(e['var']), st)} {{ " + " ".join("UNDEF" if v is None else r_term(v, st) for v in e["vals"]) + " }")
        elif t == "subselect":
            out.append("{ " + r_query(e["q"], st, sub=True) + " }")
        else:
            raise ValueError(t)
    return " ".join(out)


def r_query(q, st, sub=False):
    head = "" if sub or not st["prefix"] or st.get("undeclared") else _PREFIX_HEADS[st["prefix"]]
    if q.get("agg"):
        sel = " ".join(r_term(V(v), st) for v in q["group"]) + f" (COUNT({r_term(V(q['agg']), st)}) AS {r_term(V('n'), st)})"
    elif q["select"] == "*":
        sel = "*"
    else:
        sel = " ".join(r_term(V(v), st) for v in q["select"])
    s = head + "SELECT " + ("DISTINCT " if q.get("distinct") else "") + sel + " WHERE { " + r_elems(q["where"], st) + " }"
    if q.get("agg"):
        s += " GROUP BY " + " ".join(r_term(V(v), st) for v in q["group"])
    if q.get("order"):
        s += " ORDER BY " + " ".join(r_term(V(v), st) for v in q["order"])
    if q.get("limit") is not None:
        s += f" LIMIT {q['limit']}"
    return s


_PREFIX_HEADS = {
    True: f"PREFIX ex: <{EX}>\n",
    "two": f"PREFIX ex: <{EX}>\nPREFIX ey: <{EX}>\n",
    "two-rev": f"PREFIX ey: <{EX}>\nPREFIX ex: <{EX}>\n",
    "graphbound": f"PREFIX ey: <{EX}>\n",
    "empty-first": f"PREFIX : <{EX}>\nPREFIX ex: <{EX}>\n",
}


def text_of(q, prefix=False, ren=None, undeclared=False, ns=None):
    return r_query(q, {"prefix": prefix, "ren": ren or {}, "undeclared": undeclared, "ns": ns})


# ----------------------------------------------------------------------------- generation

SUBS = [u("a"), u("b"), ["b", "n1"], u("c"), u("c~d"), u("e%7Ef")]
PREDS = [["u", P], ["u", Q], ["u", R_]]
OBJS = [u("a"), u("b"), u("c"), u("c~d"), u("e%7Ef"), ["b", "n1"], ["l", "", None, None], ["l", "0", None, XSD + "integer"], ["l", "3", None, XSD + "integer"], ["l", "x", None, None], ["l", "false", None, XSD + "boolean"]]


SUBS_C = [t for t in SUBS if t[0] != "b"]  # constants usable inside query text (a blank node there would be a variable)
OBJS_C = [t for t in OBJS if t[0] != "b"]


def _bgp(g, n=None):
    shapes = [
        [[V("s"), ["u", P], V("o")]],
        [[V("s"), ["u", P], V("o")], [V("o"), ["u", Q], V("z")]],
        [[V("s"), V("p"), V("o")]],
        [[V("s"), ["u", P], V("o")], [V("s"), ["u", Q], V("z")]],
        [[V("s"), ["u", P], V("o")], [V("o"), ["u", P], V("z")], [V("z"), V("p"), V("w")]],
        [[V("s"), ["u", Q], g.pick(OBJS_C)]],
        [[V("s"), ["path", g.choice(["P+", "P*", "P/Q", "(P|Q)", "^P", "P?", "(P|^Q)+"])], V("o")]],
        [[V("s"), ["u", P], V("o")], [V("o"), ["path", g.choice(["Q*", "P+"])], V("z")]],
        # a sequence whose last step can reach the same node along two predicates: both ways count
        [[V("s"), ["path", g.choice(["P/(Q|R)", "P/!P", "(P|Q)/(Q|R)"])], V("o")]],
        [[V("s"), ["path", g.choice(["P/(Q|R)", "P/!P"])], g.pick(SUBS_C[:3])]],
    ]
    return {"t": "bgp", "triples": copy.deepcopy(g.choice(shapes))}


def _query(g):
    where = [_bgp(g)]
    # variables bound by plain triple patterns of the outermost BGP (a path pattern is not a basic graph pattern: with an unbound
    # end, a zero-length path ranges over the nodes of the graph only, so pre-binding and a VALUES join legitimately differ)
    outer_bgp_vars = sorted({x[1] for t in where[0]["triples"] if t[1][0] != "path" for x in t if x[0] == "v"})
    if any(t[1][0] == "path" for t in where[0]["triples"]):
        outer_bgp_vars = []
    uses_sub = False
    if g.chance(0.2):
        # a sub-SELECT that is evaluated before the outer basic graph pattern and projects only ?s
        where.insert(0, {"t": "subselect", "q": {"select": ["s"], "distinct": g.chance(0.3), "where": [{"t": "bgp", "triples": [[V("s"), g.pick(PREDS), V("k")]]}]}})
        outer_bgp_vars = [v for v in outer_bgp_vars if v not in ("s", "k")]
    elif g.chance(0.15):
        # the group starts with VALUES: everything after it is evaluated once per row of the table
        where.insert(0, {"t": "values", "var": "s", "vals": [g.pick(SUBS_C) for _ in range(g.randint(1, 3))]})
        if g.chance(0.5):
            where.insert(1, {"t": "filter", "e": ["exists", [[V("s"), g.pick(PREDS), V("e1")]]]})
            if g.chance(0.5):
                del where[2]  # no basic graph pattern at all: the filter alone looks at the data
                outer_bgp_vars = []
        outer_bgp_vars = [v for v in outer_bgp_vars if v != "s"]
    if len(where) == 1 and g.chance(0.08):
        # a path between the very variables the neighbouring pattern binds: evaluated after it, both ends arrive bound (to whatever
        # the data holds there, falsy literals included); evaluated before it, both are open
        where[0] = {"t": "bgp", "triples": [[V("s"), ["u", P], V("o")]]}
        where.append({"t": "group", "p": [{"t": "bgp", "triples": [[V("s"), ["path", g.choice(["P*", "P+", "P?", "(P|Q)+", "P/Q"])], V("o")]]}]})
        outer_bgp_vars = []
    for _ in range(g.randint(0, 3)):
        k = g.choice(["optional", "optional-filter", "union", "minus", "filter", "bind", "values", "subselect", "group", "group", "bgp2", "empty-group"])
        if k == "optional":
            where.append({"t": "optional", "p": [{"t": "bgp", "triples": [[V(g.choice(["s", "o"])), g.pick(PREDS), V("x")]]}]})
        elif k == "optional-filter":
            where.append({"t": "optional", "p": [{"t": "bgp", "triples": [[V("o"), g.pick(PREDS), V("x")]]}, {"t": "filter", "e": g.choice([["!=", V("x"), V("s")], ["isIRI", "x"]])}]})
        elif k == "union":
            where.append({"t": "union", "a": [_bgp(g)], "b": [_bgp(g)]})
        elif k == "minus":
            where.append({"t": "minus", "p": [{"t": "bgp", "triples": [[V("s"), g.pick(PREDS), g.pick(OBJS_C)]]}]})
        elif k == "filter":
            where.append({"t": "filter", "e": g.choice([["!=", V("s"), V("o")], ["=", V("o"), g.pick(OBJS_C)], ["bound", "x"], ["!bound", "x"], ["isIRI", "o"], ["exists", [[V(g.choice(["s", "o"])), g.pick(PREDS), V("e1")]]], ["notexists", [[V("s"), g.pick(PREDS), V("e1")]]]])})
        elif k == "bind":
            if not any(e["t"] == "bind" for e in where):
                where.append({"t": "bind", "var": "bv", "e": g.choice([V("s"), g.pick(OBJS_C), ["iri", "rel"]])})
        elif k == "values":
            where.append({"t": "values", "var": g.choice(["s", "o", "vv"]), "vals": [g.choice(SUBS_C + [None]) for _ in range(g.randint(1, 3))]})
        elif k == "empty-group":
            where.append({"t": "group", "p": []})  # { } : the one empty solution, a neutral operand of a join
        elif k == "subselect":
            uses_sub = True
            # the inner variable that is not projected is local to the sub-query, also when the outer pattern uses the same name
            iv = g.choice(["k", "s", "s", "z", "x"])
            where.append({"t": "subselect", "q": {"select": ["o"], "distinct": g.chance(0.5), "where": [{"t": "bgp", "triples": [[V("o"), g.pick(PREDS), V(iv)]]}]}})
            outer_bgp_vars = [v for v in outer_bgp_vars if v != iv]
        elif k == "group":
            if g.chance(0.5):
                # a group with its own MINUS: what it removes must not depend on what the neighbouring group binds
                mv = g.choice(["s", "o", "x"])
                where.append({"t": "group", "p": [{"t": "bgp", "triples": [[V("x"), g.pick(PREDS), V("y")]]}, {"t": "minus", "p": [{"t": "bgp", "triples": [[V(mv), g.pick(PREDS), V("mz")]]}]}]})
                # pre-binding a variable that a nested MINUS mentions is not the same as joining a VALUES row afterwards (the
                # nested group does not see the outer binding in the algebra): like a sub-query reusing the variable
                outer_bgp_vars = [v for v in outer_bgp_vars if v != mv]
            elif g.chance(0.6):
                # a group whose filter mentions a variable that only the neighbouring pattern binds: inside the group it is unbound
                # (also when the neighbour binds it to something that is falsy in Python)
                fv = g.choice(["s", "o", "o"])
                where.append({"t": "group", "p": [{"t": "bgp", "triples": [[V("gx"), g.pick(PREDS), V("gy")]]}, {"t": "filter", "e": g.choice([["bound", fv], ["!bound", fv], ["!=", V(fv), V("gx")]])}]})
                outer_bgp_vars = [v for v in outer_bgp_vars if v != fv]
            elif g.chance(0.4):
                # a group that holds nothing but an OPTIONAL (its left side is the empty pattern) sharing a variable with its neighbour
                ov = g.choice(["o", "s"])
                where.append({"t": "group", "p": [{"t": "optional", "p": [{"t": "bgp", "triples": [[V("gz"), g.pick(PREDS), V(ov)]]}]}]})
                # (pre-binding a variable that a nested OPTIONAL mentions is not the same as joining a VALUES row afterwards)
                outer_bgp_vars = [v for v in outer_bgp_vars if v != ov]
            else:
                where.append({"t": "group", "p": [_bgp(g)]})
        else:
            where.append(_bgp(g))
    q = {"select": "*", "distinct": g.chance(0.2), "where": where}
    mode = g.choice(["plain", "plain", "project", "agg", "order"])
    if mode == "project":
        q["select"] = g.sample(["s", "o"], g.randint(1, 2))
    elif mode == "agg":
        q["agg"], q["group"] = "o", ["s"]
    elif mode == "order" and where[0].get("triples") == [[V("s"), V("p"), V("o")]] and len(where) == 1:
        q["order"], q["limit"] = ["s", "p", "o"], g.randint(1, 6)
    # (the statement's side condition: no sub-query reuses the variable; our sub-SELECT only mentions ?o and ?k)
    q["_outer_vars"] = [v for v in outer_bgp_vars if not any(v == e.get("var") for e in where) and not (uses_sub and v in ("o", "k"))]
    return q


def _rewrites(g, q):
    """list of (kind, query AST, rename map, prefix flag, extra) - all must be answer-preserving"""
    out = []
    # permute the triples of every BGP
    q2 = copy.deepcopy(q)
    changed = False

    def walk(elems):
        nonlocal changed
        for e in elems:
            if e["t"] == "bgp" and len(e["triples"]) > 1:
                before = list(e["triples"])
                g.shuffle(e["triples"])
                changed |= e["triples"] != before
            for k in ("p", "a", "b"):
                if isinstance(e.get(k), list):
                    walk(e[k])
            if e["t"] == "subselect":
                walk(e["q"]["where"])

    walk(q2["where"])
    if changed:
        out.append(("permute-bgp", q2, None, False))
    # swap union operands
    q3 = copy.deepcopy(q)
    sw = [e for e in q3["where"] if e["t"] == "union"]
    if sw:
        for e in sw:
            e["a"], e["b"] = e["b"], e["a"]
        out.append(("swap-union", q3, None, False))
    # swap the operands of a join: two adjacent group patterns / a leading BGP with a following group
    q4 = copy.deepcopy(q)
    w = q4["where"]
    for i in range(len(w) - 1):
        if w[i]["t"] in ("group", "union", "subselect") and w[i + 1]["t"] in ("group", "union", "subselect"):
            w[i], w[i + 1] = w[i + 1], w[i]
            out.append(("swap-join", q4, None, False))
            break
    # move a trailing group in front of the leading basic graph pattern (join is commutative)
    q5 = copy.deepcopy(q)
    w5 = q5["where"]
    if len(w5) >= 2 and w5[0]["t"] == "bgp" and w5[-1]["t"] in ("group", "subselect") and all(e["t"] in ("bgp", "group", "union", "subselect") for e in w5):
        w5.insert(0, {"t": "group", "p": [w5.pop(0)]})
        w5.insert(0, w5.pop())
        out.append(("swap-join", q5, None, False))
    # consistent renaming
    ren = {"s": "subj", "o": "x9", "x": "o2", "z": "s1", "p": "pp", "k": "kk", "w": "ww", "bv": "b1", "vv": "v1", "n": "cnt"}
    out.append(("rename-vars", copy.deepcopy(q), ren, False))
    out.append(("prefix", copy.deepcopy(q), None, g.choice([True, True, "two", "two-rev", "graphbound", "empty-first"])))
    return out


def generate(seed, tier):
    g = Stream(seed, "gen")
    sched = Stream(seed, "sched")
    data = []
    for _ in range(g.randint(3, 12)):
        t = [g.pick(SUBS), g.pick(PREDS), g.pick(OBJS)]
        if t not in data:
            data.append(t)
    if g.chance(0.35):
        # a diamond: a -p-> b and two different predicates from b to c
        for t in ([u("a"), ["u", P], u("b")], [u("b"), ["u", Q], u("c")], [u("b"), ["u", R_], u("c")]):
            if t not in data:
                data.append(t)
    data2 = [[g.pick(SUBS), g.pick(PREDS), g.pick(OBJS)] for _ in range(g.randint(1, 5))]
    nq = g.randint(1, 3)
    queries = [_query(g) for _ in range(nq)]
    cfg = {"data": data, "data2": data2, "queries": queries, "split": [g.randrange(3) for _ in data]}
    if g.chance(0.3):
        # some triples are held by two member graphs of the aggregate: the aggregate is still that one set of triples
        cfg["dup"] = [g.randrange(len(data)) for _ in range(g.randint(1, 3))] if data else []
    ops = []
    live = []
    nr = 0
    for i in range(g.randint(4, 24 if tier == "quick" else 40)):
        uid = i + 1
        if live and sched.chance(0.5):
            r = sched.pick(live)
            k = sched.choice(["step", "step", "step", "drain", "drain", "close", "drop"])
            op = {"uid": uid, "k": k, "r": r, "n": sched.choice([1, 1, 2])}
            if k in ("drain", "close", "drop"):
                live.remove(r)
            ops.append(op)
            continue
        kind = g.weighted([("open", 6), ("rewrite", 3), ("config", 2), ("initb", 1), ("initns", 1)])
        qi = g.randrange(nq)
        q = queries[qi]
        if kind == "open" and len(live) < 5:
            nr += 1
            ib = None
            if q["_outer_vars"] and g.chance(0.4):
                v = g.choice(q["_outer_vars"])
                ib = {v: g.pick(SUBS_C if g.chance(0.5) else OBJS_C) if v != "p" else g.pick(PREDS)}
            ops.append({"uid": uid, "k": "open", "r": nr, "q": qi, "on": g.choice(["memory", "memory", "memory", "other", "simple", "auditable"]), "ib": ib})
            if g.chance(0.15):
                ops[-1]["base"] = g.choice(["http://one.example/", "http://two.example/dir/"])
            live.append(nr)
        elif kind == "rewrite":
            rw = _rewrites(g, q)
            if rw:
                kind_, q2, ren, pfx = g.choice(rw)
                ops.append({"uid": uid, "k": "rewrite", "q": qi, "kind": kind_, "q2": q2, "ren": ren, "prefix": pfx})
        elif kind == "config":
            ops.append({"uid": uid, "k": "config", "q": qi, "cfg": g.choice(["simple", "auditable", "aggregate", "dataset", "auditable-named", "auditable-empty-sibling"])})
        elif kind == "initns":
            ops.append({"uid": uid, "k": "initns", "q": qi, "order": g.choice([[0, 1], [1, 0], [0, 1, 0]])})
        elif kind == "initb" and q["_outer_vars"]:
            v = g.choice(q["_outer_vars"])
            ops.append({"uid": uid, "k": "initb", "q": qi, "var": v, "val": g.pick(SUBS_C if g.chance(0.4) else OBJS_C) if v != "p" else g.pick(PREDS)})
    return {"property": ID, "config": cfg, "ops": ops}


def nontrivial(trace, res):
    p = res.get("probes", {})
    return p.get("two-live-iterators-of-one-prepared-query", 0) >= 1 and p.get("nonempty-comparison", 0) >= 3


# ----------------------------------------------------------------------------- execution


def _rows(res, ren=None):
    """multiset (sorted list) of rows as tuples of (var, key)"""
    inv = {v: k for k, v in (ren or {}).items()}
    out = []
    for row in res:
        d = row.asdict() if hasattr(row, "asdict") else dict(row)
        out.append(tuple(sorted((inv.get(str(k), str(k)), key(v)) for k, v in d.items() if v is not None)))
    return sorted(out, key=repr)


def execute(trace, ctx):
    import warnings

    from rdflib import Dataset, Graph, URIRef, Variable
    from rdflib.graph import ReadOnlyGraphAggregate
    from rdflib.plugins.sparql.processor import prepareQuery
    from rdflib.plugins.stores.auditable import AuditableStore
    from rdflib.plugins.stores.memory import Memory, SimpleMemory

    warnings.simplefilter("ignore")
    cfg = trace["config"]
    triples = [(T(s), T(p), T(o)) for s, p, o in cfg["data"]]

    def load(g, ts):
        for t in ts:
            g.add(t)
        return g

    graphs = {
        "memory": load(Graph(Memory()), triples),
        "simple": load(Graph(SimpleMemory()), triples),
        "auditable": load(Graph(AuditableStore(Memory())), triples),
        "other": load(Graph(Memory()), [(T(s), T(p), T(o)) for s, p, o in cfg["data2"]]),
    }
    graphs["memory"].bind("gb", EX)  # prefix style "graphbound" relies on it; nothing else spells gb:
    parts = [Graph(Memory()) for _ in range(3)]
    for t, k in zip(triples, cfg["split"]):
        parts[k % 3].add(t)
    for j in cfg.get("dup", []):
        if j < len(triples):
            parts[(cfg["split"][j] + 1) % 3].add(triples[j])
            ctx.probe("aggregate-members-overlap")
    graphs["aggregate"] = ReadOnlyGraphAggregate(parts)
    ds = Dataset()
    load(ds.default_graph, triples)
    graphs["dataset"] = ds
    # behind the auditable wrapper with several graphs in the store: the data in one named graph, an empty sibling next to it
    aud_multi = AuditableStore(Memory())
    load(Graph(aud_multi, URIRef(EX + "datagraph")), triples)
    graphs["auditable-named"] = Graph(aud_multi, URIRef(EX + "datagraph"))
    graphs["auditable-empty-sibling"] = Graph(aud_multi, URIRef(EX + "emptygraph"))
    graphs["memory-empty"] = Graph(Memory())

    texts = [text_of(q) for q in cfg["queries"]]
    prepared = {}
    readers = {}
    started = [0]

    def prep(qi):
        if qi not in prepared:
            prepared[qi] = prepareQuery(texts[qi])
        return prepared[qi]

    def ib_of(ib):
        return {Variable(k): T(v) for k, v in ib.items()} if ib else None

    def fresh(qi, on, ib=None, base=None):
        # a freshly parsed evaluation, in isolation
        if base is not None:
            # (base= at evaluation time: the reference is a freshly *prepared* query evaluated with the same arguments)
            return _rows(graphs[on].query(prepareQuery(texts[qi]), initBindings=ib_of(ib), base=base))
        return _rows(graphs[on].query(texts[qi], initBindings=ib_of(ib)))

    def finish(rid):
        r = readers.pop(rid)
        exp = fresh(r["q"], r["on"], r["ib"], r.get("base"))
        got = sorted(r["rows"], key=repr)
        if exp:
            ctx.probe("nonempty-comparison")
        ctx.check(
            got == exp,
            "C15.prepared-vs-fresh",
            lambda: f"prepared query #{r['q']} on {r['on']} initBindings={r['ib']} (evaluation interleaved with others) answered differently from a fresh evaluation:\n{texts[r['q']]}\n prepared-only={[x for x in got if x not in exp][:6]}\n fresh-only={[x for x in exp if x not in got][:6]}\n sizes {len(got)} vs {len(exp)}",
        )

    for op in trace["ops"]:
        k = op["k"]
        ctx.op("q%s" % op.get("q", ""), k)
        if k == "open":
            qo = prep(op["q"])
            same_q = [r for r in readers.values() if r["q"] == op["q"]]
            if same_q:
                ctx.probe("two-live-iterators-of-one-prepared-query")
                if any(r["on"] != op["on"] for r in same_q):
                    ctx.probe("same-prepared-query-on-two-graphs")
            if op.get("ib"):
                ctx.probe("initBindings-evaluation")
            try:
                if op.get("base"):
                    ctx.probe("evaluation-with-base-argument")
                    it = iter(graphs[op["on"]].query(qo, initBindings=ib_of(op.get("ib")), base=op["base"]))
                else:
                    it = iter(graphs[op["on"]].query(qo, initBindings=ib_of(op.get("ib"))))
            except Exception as e:
                # must fail the same way when parsed afresh
                try:
                    fresh(op["q"], op["on"], op.get("ib"), op.get("base"))
                    ctx.deviation("C15.prepared-raises", f"prepared query raised {type(e).__name__}: {e}, fresh evaluation works:\n{texts[op['q']]}")
                except Exception:
                    pass
                continue
            started[0] += 1
            readers[op["r"]] = {"it": it, "q": op["q"], "on": op["on"], "ib": op.get("ib"), "base": op.get("base"), "rows": [], "started": started[0]}
            ctx.log("open", f"r{op['r']} q{op['q']} {op['on']} ib={op.get('ib')}")
        elif k in ("step", "drain"):
            r = readers.get(op["r"])
            if r is None:
                continue
            if started[0] > r["started"]:
                ctx.probe("iterator-resumed-after-another-evaluation-started")
            n = 10**6 if k == "drain" else op.get("n", 1)
            done = False
            try:
                for _ in range(n):
                    row = next(r["it"])
                    d = row.asdict()
                    r["rows"].append(tuple(sorted((str(a), key(b)) for a, b in d.items() if b is not None)))
            except StopIteration:
                done = True
            except Exception as e:
                readers.pop(op["r"], None)
                try:
                    fresh(r["q"], r["on"], r["ib"])
                    ctx.deviation("C15.prepared-raises", f"prepared query iterator raised {type(e).__name__}: {e}; a fresh evaluation works:\n{texts[r['q']]}")
                except Exception:
                    pass
                continue
            if done:
                finish(op["r"])
            ctx.log(k, f"r{op['r']} rows={len(r['rows'])} done={done}")
        elif k in ("close", "drop"):
            r = readers.pop(op["r"], None)
            if r is not None:
                ctx.probe("reader-cancelled")
                if k == "close" and hasattr(r["it"], "close"):
                    r["it"].close()
            ctx.log(k, f"r{op['r']}")
        elif k == "rewrite":
            try:
                base = fresh(op["q"], "memory")
            except Exception as e:
                ctx.log("rewrite-base-raised", type(e).__name__)
                continue
            t2 = text_of(op["q2"], prefix=op.get("prefix", False), ren=op.get("ren"))
            ctx.probe("rewrite-" + op["kind"])
            try:
                got = _rows(graphs["memory"].query(t2), ren=op.get("ren"))
            except Exception as e:
                ctx.deviation("C15.rewrite-raises", f"rewriting '{op['kind']}' raised {type(e).__name__}: {e}\n{texts[op['q']]}\n{t2}")
                continue
            if base:
                ctx.probe("nonempty-comparison")
            ctx.check(got == base, "C15.rewrite-" + op["kind"], lambda: f"rewriting '{op['kind']}' changed the answer:\n A: {texts[op['q']]}\n B: {t2}\n A-only={[x for x in base if x not in got][:6]}\n B-only={[x for x in got if x not in base][:6]}\n sizes {len(base)} vs {len(got)}", kind=op["kind"])
            ctx.log("rewrite", f"{op['kind']} {len(base)}")
        elif k == "config":
            try:
                # (the empty sibling graph must answer like an empty graph, whatever its neighbours hold)
                base = fresh(op["q"], "memory" if op["cfg"] != "auditable-empty-sibling" else "memory-empty")
            except Exception as e:
                ctx.log("config-base-raised", type(e).__name__)
                continue
            ctx.probe("config-" + op["cfg"])
            try:
                got = fresh(op["q"], op["cfg"])
            except Exception as e:
                ctx.deviation("C15.config-raises", f"{op['cfg']}: {type(e).__name__}: {e}\n{texts[op['q']]}", cfg=op["cfg"])
                continue
            if base:
                ctx.probe("nonempty-comparison")
            ctx.check(got == base, "C15.config-" + op["cfg"], lambda: f"same data in {op['cfg']} answers differently from Memory:\n{texts[op['q']]}\n memory-only={[x for x in base if x not in got][:6]}\n {op['cfg']}-only={[x for x in got if x not in base][:6]}\n sizes {len(base)} vs {len(got)}", cfg=op["cfg"], has_path="path" in repr(cfg["queries"][op["q"]]))
            ctx.log("config", f"{op['cfg']} {len(base)}")
        elif k == "initns":
            # the same query text with a prefix that is *not* declared in the text, supplied through initNs, for two different
            # namespaces in turn: each time it must mean the fully spelled query of that namespace (no stale translation)
            q = cfg["queries"][op["q"]]
            ctx.probe("prefix-from-initNs")
            short = text_of(q, prefix=True, undeclared=True)
            for which in op["order"]:
                ns = [EX, EX2][which]
                try:
                    want = _rows(graphs["memory"].query(text_of(q, ns=ns)))
                    got = _rows(graphs["memory"].query(short, initNs={"ex": ns}))
                except Exception as e:
                    ctx.log("initns-raised", type(e).__name__)
                    break
                if want:
                    ctx.probe("nonempty-comparison")
                ctx.check(got == want, "C15.prefix-from-initNs", lambda: f"query with prefix ex: supplied as initNs={{'ex': {ns}}} differs from the fully spelled query:\n{short}\n prefixed-only={[x for x in got if x not in want][:5]}\n full-only={[x for x in want if x not in got][:5]}")
        elif k == "initb":
            q = cfg["queries"][op["q"]]
            ctx.probe("rewrite-values-vs-initbindings")
            q2 = copy.deepcopy(q)
            q2["where"].append({"t": "values", "var": op["var"], "vals": [op["val"]]})
            try:
                a = fresh(op["q"], "memory", {op["var"]: op["val"]})
                b = _rows(graphs["memory"].query(text_of(q2)))
            except Exception as e:
                ctx.log("initb-raised", type(e).__name__)
                continue
            if a:
                ctx.probe("nonempty-comparison")
            ctx.check(a == b, "C15.initbindings-vs-values", lambda: f"initBindings {{{op['var']}: {op['val']}}} differs from an added VALUES row:\n{texts[op['q']]}\n initBindings-only={[x for x in a if x not in b][:6]}\n values-only={[x for x in b if x not in a][:6]}")
        ctx.state(k, texts[op["q"]] if "q" in op else None, tuple(sorted((r["q"], r["on"], len(r["rows"])) for r in readers.values())))
    # evaluations still alive at the end are completed and judged too
    for rid in sorted(readers):
        r = readers[rid]
        try:
            for row in r["it"]:
                r["rows"].append(tuple(sorted((str(a), key(b)) for a, b in row.asdict().items() if b is not None)))
        except Exception as e:
            ctx.log("final-drain-raised", type(e).__name__)
            readers.pop(rid, None)
            continue
        finish(rid)


def simplify(trace):
    for j in range(len(trace["config"]["data"])):
        t = copy.deepcopy(trace)
        del t["config"]["data"][j]
        del t["config"]["split"][j]
        if "dup" in t["config"]:
            t["config"]["dup"] = [d - (d > j) for d in t["config"]["dup"] if d != j]
        yield t
    for qi, q in enumerate(trace["config"]["queries"]):
        for j in range(1, len(q["where"])):
            t = copy.deepcopy(trace)
            del t["config"]["queries"][qi]["where"][j]
            t["ops"] = [o for o in t["ops"] if not (o["k"] == "rewrite" and o["q"] == qi)]
            yield t
