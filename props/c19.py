"""C19 - a Collection behaves like the Python list it represents.

History of list operations against a Python list model + chain well-formedness after every
mutation; chain corruption (cycle / missing rest / two rests / missing first) is an injected
fault, after which every read runs under a deterministic line-event budget and must raise or
return (never loop).
"""
from __future__ import annotations

from sim.kernel import KnownStop, StepBudgetExceeded
from sim.rng import Stream
from sim.terms import XSD, T, key, skey, tkey, u

ID = "C19"
LEVEL = "exploration"
TIERS = {"quick": {"runs": 9600, "wall_cap": 600}, "thorough": {"runs": 160000, "wall_cap": 3300}}
RULE = (
    "each evaluation is one seeded history (<=25 quick / <=50 thorough operations: append, += (a list, the collection itself, an iterable that raises midway), c[i]=v, del c[i] for -len-1<=i<=len, clear, len, "
    "list, c[i], index, in) on a Collection (BNode or IRI head, start length 0-4 built through the API or as raw triples, noise triples and a "
    "second unrelated list in the same graph, one or two Collection objects over Graph / Dataset / ConjunctiveGraph graphs, optionally a counting store subscriber), compared op by op with a Python list, plus rdf:first/rdf:rest chain well-formedness after "
    "every mutation; in fault runs the chain is corrupted at a seeded point and all later reads run under a line-event budget; distinct = "
    "distinct trace digest; non-trivial = at least 3 effective mutations or a fired corruption fault followed by reads"
)
REAL = ["rdflib.collection.Collection", "rdflib.graph.Graph.items/value", "rdflib.plugins.stores.memory.Memory"]
STUB = []
ASSUMPTIONS = [
    "negative indices count from the end as in a list (-len <= i < len), anything else raises IndexError",
    "c += iterable that raises: the exception propagates and the list holds either the members handed out before the error (what a list does) or none of them; the chain must be well formed either way",
    "index() of an absent member must raise (any exception type); IndexError is demanded exactly where list raises IndexError",
    "after an injected chain corruption only reads are issued; len/list on a cyclic chain must raise, every read must finish within the line-event budget",
    "an empty list is a head node that carries no rdf:first/rdf:rest triple",
]
PROBES = ["negative-index", "iadd-self", "benign-subscriber", "delete-head", "delete-only", "delete-last", "delete-middle", "falsy-member-read", "index-one-past", "append-after-clear", "fault-cycle", "fault-no-rest", "fault-two-rests", "fault-no-first", "duplicate-member", "two-collection-handles"]
KNOWN_PREDICATES = {
    # c[len(c)] = v does not raise: it writes (rdf:nil rdf:first v) (or, on an empty list, a head cell without rdf:rest)
    "C19-setitem-one-past-the-end-writes": lambda f: f.get("i") == f.get("n") and f.get("raised") is False,
}
READ_BUDGET = 60000

RDFNS = "http://www.w3.org/1999/02/22-rdf-syntax-ns#"


def _srt(xs):
    return sorted(xs, key=repr)


def warm():
    import rdflib  # noqa
    import rdflib.collection  # noqa


VALUES = [
    ["l", "", None, None],
    ["l", "0", None, XSD + "integer"],
    ["l", "false", None, XSD + "boolean"],
    ["l", "x", None, None],
    ["l", "1", None, XSD + "integer"],
    u("v"),
    ["b", "vb"],
    ["l", "", "en", None],
]


def generate(seed, tier):
    g = Stream(seed, "gen")
    nsteps = g.randint(2, 25 if tier == "quick" else 50)
    vals = list(VALUES)
    g.shuffle(vals)
    vals = vals[: g.randint(2, len(vals))]
    init = [g.pick(vals) for _ in range(g.choice([0, 0, 1, 1, 2, 3, 4]))]
    cfg = {
        "head": g.choice([["b", "head"], u("head")]),
        "build": g.choice(["api", "raw", "raw-iri-cells"]),
        "init": init,
        "noise": g.chance(0.7),
        "other_list": g.chance(0.5),
        # where the list lives and through how many Collection objects it is driven
        "graph": g.choice(["graph", "graph", "graph-simple", "dataset-default", "dataset-named", "conjunctive"]),
        "handles": g.choice([1, 1, 2]),
        # a store-level subscriber that only counts additions (legal configuration, must change nothing)
        "subscriber": g.chance(0.2),
    }
    w = {"append": g.choice([1, 3]), "iadd": g.choice([0, 1]), "set": g.choice([1, 2]), "del": g.choice([1, 3, 5]), "clear": g.choice([0, 1]), "read": g.choice([2, 4])}
    fault_at = g.randrange(nsteps) if g.chance(0.35) else None
    n = len(init)
    ops = []
    for i in range(nsteps):
        uid = i + 1
        if fault_at is not None and i == fault_at:
            ops.append({"uid": uid, "k": "corrupt", "how": g.choice(["cycle", "cycle", "no-rest", "two-rests", "no-first"]), "at": g.randrange(8), "to": g.randrange(8)})
            continue
        kind = g.weighted(list(w.items()))
        if fault_at is not None and i > fault_at:
            kind = "read"
        op = {"uid": uid, "k": kind, "h": g.randrange(2)}
        if kind == "append":
            op["v"] = g.pick(vals)
            n += 1
        elif kind == "iadd":
            op["vs"] = [g.pick(vals) for _ in range(g.randint(0, 3))]
            n += len(op["vs"])
            r = g.random()
            if r < 0.12:
                op["self"] = True  # c += c (or += the other handle on the same list): a list doubles
                n += n - len(op["vs"])
                op["vs"] = []
            elif r < 0.3 and op["vs"]:
                op["die"] = g.randrange(len(op["vs"]) + 1)  # fault: the iterable raises OSError after handing out that many members
                n -= len(op["vs"]) - op["die"]  # estimate only: a list keeps the members handed out before the error
        elif kind == "set":
            # one-past-the-end assignment is a listed known finding that corrupts the graph and ends the run: keep it rare
            op["v"] = g.pick(vals)
            if n == 0 and not g.chance(0.1):
                op["k"] = "append"
                n += 1
            else:
                op["i"] = n if (n == 0 or g.chance(0.06)) else g.randrange(n)
                if n and g.chance(0.15):
                    op["i"] = -g.randint(1, n + 1)
        elif kind == "del":
            op["i"] = g.choice([0, 0, max(n - 1, 0), n] + list(range(n + 1)))
            if g.chance(0.15):
                op["i"] = -g.randint(1, n + 1)
            if -n <= op["i"] < n:
                n -= 1
        elif kind == "clear":
            n = 0
        else:
            op["k"] = g.choice(["len", "list", "get", "get", "index", "in"])
            if op["k"] == "get":
                op["i"] = g.randint(0, n + 1) if g.chance(0.8) else -g.randint(1, n + 2)
            if op["k"] in ("index", "in"):
                op["v"] = g.pick(VALUES)
        ops.append(op)
    return {"property": ID, "config": cfg, "ops": ops}


def nontrivial(trace, res):
    p = res.get("probes", {})
    return p.get("effective-mutation", 0) >= 3 or (res.get("faults") and p.get("read-after-fault", 0) > 0)


def execute(trace, ctx):
    from rdflib import Graph
    from rdflib.collection import Collection
    from rdflib.namespace import RDF
    from rdflib.term import BNode, URIRef

    cfg = trace["config"]
    gk = cfg.get("graph", "graph")
    if gk in ("graph", "graph-simple"):
        g = Graph() if gk == "graph" else Graph(store="SimpleMemory")
        g_alt = Graph(g.store, g.identifier)
        if gk == "graph-simple":
            ctx.probe("list-in-graph-simple")
    else:
        from rdflib import ConjunctiveGraph, Dataset
        from rdflib.term import URIRef as _U

        top = Dataset() if gk.startswith("dataset") else ConjunctiveGraph()
        if gk == "dataset-named":
            g = top.graph(_U("http://ex.org/listgraph"))
            g_alt = top.graph(_U("http://ex.org/listgraph"))  # Dataset.graph() hands out a new Graph object every time
        elif gk == "dataset-default":
            g = top.default_graph
            g_alt = Graph(top.store, top.default_graph.identifier)
        else:
            g = top.default_context
            g_alt = Graph(top.store, g.identifier)
        ctx.probe("list-in-" + gk)
    head = T(cfg["head"])
    model = [skey(v) for v in cfg["init"]]
    noise = set()
    if cfg["noise"]:
        for t in [(u("n1"), u("p"), ["l", "noise", None, None]), (u("n2"), u("ref"), cfg["head"])]:
            g.add((T(t[0]), T(t[1]), T(t[2])))
            noise.add(tuple(skey(x) for x in t))
    other = []
    if cfg["other_list"]:
        oh = BNode("otherhead")
        Collection(g, oh, [T(VALUES[3]), T(VALUES[0])])
        other = [tkey(t) for t in g.triples((None, RDF.first, None))] + [tkey(t) for t in g.triples((None, RDF.rest, None))]
    if cfg["build"] == "api":
        c = Collection(g, head, [T(v) for v in cfg["init"]])
    else:
        cells = [head] + [(URIRef("http://ex.org/cell%d" % i) if cfg["build"] == "raw-iri-cells" else BNode("cell%d" % i)) for i in range(1, len(cfg["init"]))]
        for i, v in enumerate(cfg["init"]):
            g.add((cells[i], RDF.first, T(v)))
            g.add((cells[i], RDF.rest, cells[i + 1] if i + 1 < len(cfg["init"]) else RDF.nil))
        c = Collection(g, head)
    # a second Collection object on the same head, over another Graph object on the same data
    if cfg.get("subscriber"):
        from rdflib.store import TripleAddedEvent

        seen_adds = []
        g.store.dispatcher.subscribe(TripleAddedEvent, lambda ev: seen_adds.append(1))
        ctx.probe("benign-subscriber")
    c_alt = Collection(g_alt, head)
    handles = [c, c_alt] if cfg.get("handles", 1) == 2 else [c, c]
    if cfg.get("handles", 1) == 2:
        ctx.probe("two-collection-handles")
    FIRST, REST, NIL = ("u", RDFNS + "first"), ("u", RDFNS + "rest"), ("u", RDFNS + "nil")

    def chain_check(where):
        """well-formedness by direct triple inspection (no Collection / items code involved)"""
        trip = {tkey(t) for t in g}
        firsts, rests = {}, {}
        for s, p, o in trip:
            if p == FIRST:
                firsts.setdefault(s, []).append(o)
            if p == REST:
                rests.setdefault(s, []).append(o)
        hk = key(head)
        cells, vals = [], []
        if model or hk in firsts or hk in rests:
            cur = hk
            seen = set()
            while cur != NIL:
                if cur in seen:
                    return ctx.deviation("C19.chain", f"{where}: chain has a cycle at {cur}")
                seen.add(cur)
                f, r = firsts.get(cur, []), rests.get(cur, [])
                if len(f) != 1 or len(r) != 1:
                    return ctx.deviation("C19.chain", f"{where}: cell {cur} has rdf:first={f} rdf:rest={r}; model list={model}", cell_is_head=cur == hk, nfirst=len(f), nrest=len(r), model_len=len(model))
                cells.append(cur)
                vals.append(f[0])
                cur = r[0]
        ctx.check(vals == model, "C19.chain-values", lambda: f"{where}: chain spells {vals}, model {model}")
        ok = set(other)
        for cell in cells:
            ok.add((cell, FIRST, firsts[cell][0]))
            ok.add((cell, REST, rests[cell][0]))
        stray = {t for t in trip if t[1] in (FIRST, REST) and t not in ok}
        ctx.check(not stray, "C19.orphans", lambda: f"{where}: rdf:first/rdf:rest triples outside the chain: {_srt(stray)}")
        missing_other = set(other) - trip
        ctx.check(not missing_other, "C19.other-list", lambda: f"{where}: unrelated list lost {missing_other}")
        lost = noise - trip
        ctx.check(not lost, "C19.noise", lambda: f"{where}: unrelated triples lost: {lost}")

    def read(op, corrupted):
        k = op["k"]
        c = handles[op.get("h", 0) % 2]
        try:
            with ctx.budget(READ_BUDGET if corrupted else READ_BUDGET * 4, "read"):
                if k == "len":
                    return ("ok", len(c))
                if k == "list":
                    return ("ok", [key(x) for x in c])
                if k == "get":
                    return ("ok", key(c[op["i"]]))
                if k == "index":
                    return ("ok", c.index(T(op["v"])))
                if k == "in":
                    return ("ok", T(op["v"]) in c)
        except StepBudgetExceeded:
            raise
        except Exception as e:
            return ("raise", type(e).__name__, isinstance(e, IndexError), str(e)[:100])
        raise ValueError(k)

    chain_check("initial")
    corrupted = None
    members_at_fault = set()
    after_clear = False
    for op in trace["ops"]:
        k = op["k"]
        ctx.op("", k)
        c = handles[op.get("h", 0) % 2]
        if k == "corrupt":
            cells = []
            cur = head
            seen = set()
            while cur is not None and cur != RDF.nil and cur not in seen:
                seen.add(cur)
                cells.append(cur)
                cur = g.value(cur, RDF.rest)
            if not model or not cells:
                continue
            ai = op["at"] % len(cells)
            at = cells[ai]
            how = op["how"]
            if how == "cycle":
                # rest points back to this cell or an earlier one: a real cycle reachable from the head
                g.set((at, RDF.rest, cells[op["to"] % (ai + 1)]))
            elif how == "no-rest":
                g.remove((at, RDF.rest, None))
            elif how == "two-rests":
                g.add((at, RDF.rest, BNode("stray")))
            elif how == "no-first":
                g.remove((at, RDF.first, None))
            corrupted = how
            members_at_fault = set(model)
            ctx.fault("chain-" + how)
            ctx.probe("fault-" + how)
            ctx.log("corrupt", f"{how} at {op['at']}")
            continue
        if corrupted:
            if k not in ("len", "list", "get", "index", "in"):
                continue
            ctx.probe("read-after-fault")
            try:
                r = read(op, True)
            except StepBudgetExceeded as e:
                ctx.deviation("C19.read-loops", f"{k}({op.get('i', op.get('v'))}) on a chain corrupted by '{corrupted}' did not finish within {READ_BUDGET} line events: {e}", read=k, how=corrupted)
                continue
            if corrupted == "cycle" and k in ("len", "list"):
                ctx.check(r[0] == "raise", "C19.cycle-read-returns", lambda: f"{k} on a cyclic chain returned {r} instead of raising")
            if corrupted == "cycle" and k in ("in", "index") and skey(op["v"]) not in members_at_fault:
                # the member is in no cell of the chain: no answer can be given without walking the whole (endless) chain
                ctx.check(r[0] == "raise", "C19.cycle-read-returns", lambda: f"{k}({op['v']}) for a term that is not in the cyclic chain returned {r} instead of raising", read=k)
            ctx.log(k, f"after-fault {r[0]}")
            continue
        n = len(model)
        if k == "append":
            if after_clear:
                ctx.probe("append-after-clear")
            c.append(T(op["v"]))
            model.append(skey(op["v"]))
            ctx.probe("effective-mutation")
        elif k == "iadd":
            c2 = c
            if op.get("self"):
                ctx.probe("iadd-self")
                src = c if op["h"] == 0 else handles[1 - handles.index(c)] if handles[0] is not handles[1] else c
                with ctx.budget(READ_BUDGET * 4, "iadd-self"):
                    try:
                        c2 += src
                    except StepBudgetExceeded:
                        ctx.deviation("C19.iadd-self-loops", f"c += c on a list of length {n} did not finish within {READ_BUDGET * 4} line events (a Python list doubles)")
                        raise KnownStop()
                model.extend(list(model))
            elif "die" in op:
                ctx.fault("iterable-raised")

                def dying(vs=op["vs"], k=op["die"]):
                    for v in vs[:k]:
                        yield T(v)
                    raise OSError("iterable died")

                try:
                    c2 += dying()
                    ctx.deviation("C19.iadd-swallowed", "+= of an iterable that raises OSError did not raise")
                except OSError:
                    pass
                # a list keeps the members handed out before the error; keeping none of them is accepted too, anything else is not
                got_now = [key(x) for x in g.items(head)] if (head, RDF.first, None) in g or model else []
                full = model + [skey(v) for v in op["vs"][: op["die"]]]
                if got_now == full:
                    model.extend(skey(v) for v in op["vs"][: op["die"]])
                # else: model unchanged; chain_check below compares the chain with it
            else:
                c2 += [T(v) for v in op["vs"]]
                model.extend(skey(v) for v in op["vs"])
            ctx.check(c2 is c, "C19.iadd-identity", "+= returned another object")
            if op["vs"] or op.get("self"):
                ctx.probe("effective-mutation")
        elif k == "set":
            i = op["i"]
            exp_err = not (-n <= i < n)
            if i == n:
                ctx.probe("index-one-past")
            if i < 0:
                ctx.probe("negative-index")
            try:
                c[i] = T(op["v"])
                got_err = None
            except Exception as e:
                got_err = e
            if exp_err:
                r = ctx.check(isinstance(got_err, IndexError), "C19.setitem-indexerror", lambda: f"c[{i}] = v on a list of length {n}: expected IndexError, got {type(got_err).__name__ if got_err else 'no exception'}", i=i, n=n, raised=got_err is not None)
                if r == "known":
                    raise KnownStop()  # the graph now carries (rdf:nil rdf:first v) or a head without rdf:rest: state is corrupted, the run ends here
            else:
                ctx.check(got_err is None, "C19.setitem-raised", lambda: f"c[{i}] = v on a list of length {n} raised {type(got_err).__name__}: {got_err}")
                model[i] = skey(op["v"])
                ctx.probe("effective-mutation")
        elif k == "del":
            i = op["i"]
            exp_err = not (-n <= i < n)
            if i < 0:
                ctx.probe("negative-index")
            if not exp_err:
                ctx.probe("delete-only" if n == 1 else "delete-head" if i % n == 0 else "delete-last" if i % n == n - 1 else "delete-middle")
            try:
                del c[i]
                got_err = None
            except Exception as e:
                got_err = e
            if exp_err:
                ctx.check(isinstance(got_err, IndexError), "C19.delitem-indexerror", lambda: f"del c[{i}] on a list of length {n}: expected IndexError, got {type(got_err).__name__ if got_err else 'no exception'}", i=i, n=n)
            else:
                ctx.check(got_err is None, "C19.delitem-raised", lambda: f"del c[{i}] on list {model} raised {type(got_err).__name__}: {got_err}", i=i, n=n, member=model[i])
                del model[i]
                ctx.probe("effective-mutation")
        elif k == "clear":
            c.clear()
            model.clear()
            after_clear = True
        else:
            r = read(op, False)
            if k == "len":
                ctx.check(r == ("ok", n), "C19.len", lambda: f"len -> {r}, model {n}")
            elif k == "list":
                ctx.check(r == ("ok", model), "C19.list", lambda: f"list(c) -> {r}, model {model}")
            elif k == "get":
                i = op["i"]
                if i < 0:
                    ctx.probe("negative-index")
                if -n <= i < n:
                    if not T(list(model[i])):
                        ctx.probe("falsy-member-read")
                    ctx.check(r == ("ok", model[i]), "C19.getitem", lambda: f"c[{i}] -> {r}, model {model[i]}", i=i, n=n, member=model[i])
                else:
                    if i == n:
                        ctx.probe("index-one-past")
                    ctx.check(r[0] == "raise" and r[2], "C19.getitem-indexerror", lambda: f"c[{i}] on a list of length {n}: expected IndexError, got {r}", i=i, n=n)
            elif k == "index":
                v = skey(op["v"])
                if model.count(v) > 1:
                    ctx.probe("duplicate-member")
                if v in model:
                    ctx.check(r == ("ok", model.index(v)), "C19.index", lambda: f"index({v}) -> {r}, model {model.index(v)}")
                else:
                    ctx.check(r[0] == "raise", "C19.index-absent", lambda: f"index({v}) of an absent member returned {r}")
            elif k == "in":
                v = skey(op["v"])
                ctx.check(r == ("ok", v in model), "C19.contains", lambda: f"{v} in c -> {r}, model {v in model}")
        ctx.log(k, f"{op.get('i')} {op.get('v')} len={len(model)}")
        ctx.state(tuple(model))
        if k in ("append", "iadd", "set", "del", "clear"):
            chain_check(f"after op uid={op['uid']} {k}")


def simplify(trace):
    import copy

    cfg = trace["config"]
    if cfg["noise"]:
        t = copy.deepcopy(trace)
        t["config"]["noise"] = False
        yield t
    if cfg["other_list"]:
        t = copy.deepcopy(trace)
        t["config"]["other_list"] = False
        yield t
    for j in range(len(cfg["init"])):
        t = copy.deepcopy(trace)
        del t["config"]["init"][j]
        yield t
    if cfg["build"] != "api":
        t = copy.deepcopy(trace)
        t["config"]["build"] = "api"
        yield t
