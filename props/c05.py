"""C05 (delivery part) - one document, every way of delivering it.

Claimed: "the same document given as str, bytes, file object or path gives the same result", extended to what
real file objects and servers legally do (short reads, chunk boundaries anywhere, redirects, content-type driven
format selection).  Faults: read error / EOF at byte k, HTTP 404/500, redirect loop.
"""
from __future__ import annotations

import io
import os
import pathlib
import tempfile

from sim import iso, kernel, writers
from sim.rng import Stream
from sim.simio import SimNet, SimRaw, SimText, chunk_schedule
from sim.terms import EX, XSD, T, key, skey, u

ID = "C05"
LEVEL = "fault_enumeration"
TIERS = {"quick": {"runs": 3200, "wall_cap": 600}, "thorough": {"runs": 50000, "wall_cap": 3300}}
RULE = (
    "each evaluation is one seeded document (N-Triples, N-Quads, Turtle, TriG rendered by an independent randomised writer from a known "
    "graph: quoting styles, \\u/\\U/ECHAR escapes, prefixes/base, ; , abbreviations, comments, CR/LF/CRLF, multi-byte and non-BMP characters; "
    "RDF/XML, TriX, JSON-LD, HexTuples as rdflib's own serialisation) delivered through 6-29 seeded delivery modes (data=str/bytes, source=bytes, "
    "BytesIO, StringIO, TextIOWrapper over a raw stream, nameless BytesIO/StringIO/TextIOWrapper as file=, a real text-mode file that is UTF-16 or latin-1, raw byte stream and character stream with short reads down to 1 unit, "
    "StringInputSource/FileInputSource, path as str/pathlib, file:// and simulated http:// locations with redirects and content-type "
    "driven format choice, format given or guessed) with ntriples.bufsiz randomised; every delivery must give the graph of the data=str "
    "baseline (and of the writer's intended graph) up to blank-node bijection; fault runs inject OSError/EOF at a byte offset (thorough: "
    "every offset of the document), HTTP 404/500 and redirect loops and demand raise-or-return within a line-event budget and no triple "
    "outside the full document for line-based syntaxes; distinct = distinct trace digest; non-trivial = at least 6 fault-free deliveries of a "
    "document with at least 3 statements of which at least one went through a short-read stream"
)
REAL = ["rdflib.parser (create_input_source, StringInputSource, FileInputSource, URLInputSource, BytesIOWrapper)", "all rdflib parsers", "rdflib.graph.Graph/Dataset.parse", "rdflib.util.guess_format"]
STUB = ["file objects (SimRaw, SimText)", "HTTP (SimNet behind rdflib.parser._urlopen)", "real temp files for path / file:// modes"]
ASSUMPTIONS = [
    "only the delivery clause of C05 is claimed; spelling variety is whatever the seeded writer produces and is exercised as a by-product",
    "graphs are compared by an independent blank-node matcher; a simple literal and the same form typed xsd:string are identified",
    "legal short reads are not faults and must give the identical graph",
]
PROBES = ["chunk-inside-multibyte-char", "chunk-inside-escape", "chunk-between-CR-LF", "short-read-stream", "text-stream-without-buffer", "http-redirect", "format-guessed", "fault-fired", "fault-partial", "bufsiz-smaller-than-line", "raw-CR-in-literal", "awkward-path", "default-format-turtle", "relative-path-after-failed-call", "relative-path-after-chdir", "writer-own-nt", "writer-own-nquads", "writer-own-turtle", "writer-own-trig", "writer-own-xml-abbreviated", "writer-own-xml-plain", "writer-own-jsonld-with-context", "writer-own-jsonld-expanded", "writer-rdflib-xml", "writer-rdflib-json-ld", "writer-rdflib-trix", "writer-rdflib-hext", "document-starts-with-BOM"]
KNOWN_PREDICATES = {}

OWN = ["nt", "nquads", "turtle", "trig"]
VIA_RDFLIB = ["xml", "trix", "json-ld", "hext"]
LINE_FORMATS = {"nt", "nquads", "hext"}
EXT = {"nt": "nt", "nquads": "nq", "turtle": "ttl", "trig": "trig", "xml": "rdf", "trix": "trix", "json-ld": "jsonld", "hext": "hext"}
CTYPE = {"nt": "application/n-triples", "nquads": "application/n-quads", "turtle": "text/turtle", "trig": "application/trig", "xml": "application/rdf+xml", "trix": "application/trix", "json-ld": "application/ld+json"}
MODES = ["data-str", "data-bytes", "source-bytes", "file-bytesio", "source-stringio", "textwrap-raw", "file-raw", "source-raw", "file-text", "source-text", "sis-str", "sis-bytes", "fis-raw", "path-str", "path-pathlib", "loc-file", "loc-http", "loc-http-redirect", "path-guess", "http-guess", "byteswrapper-text", "byteswrapper-str", "data-noformat-publicid", "path-relative-late", "path-relative-chdir", "file-bytesio-nameless", "file-stringio", "file-textwrapper-nameless", "textfile-utf16"]
BUDGET = 4000000
STRINGS = ["v", "", "a b", "café", "€ uro", "\U0001F600 smile", 'q"uote', "back\\slash", "line\nbreak", "tab\there", "cr\rhere", "crlf\r\nend", "x' y", "é" * 3, "end\\", "no\ufeffbreak", "\ufeffbom-first", "C:\\temp\\new\\b\\r\\f\\'q"]


def _srt(xs):
    return sorted(xs, key=repr)


def warm():
    import rdflib  # noqa
    import rdflib.util  # noqa
    from rdflib import plugin
    from rdflib.parser import Parser
    from rdflib.serializer import Serializer

    for f in OWN + VIA_RDFLIB:
        plugin.get(f, Parser)
    for f in VIA_RDFLIB:
        plugin.get(f, Serializer)
    import rdflib.plugins.parsers.notation3  # noqa


def generate(seed, tier):
    g = Stream(seed, "gen")
    fmt = g.choice(OWN * 2 + ["xml", "json-ld"] * 3 + ["trix", "hext"])
    quad = fmt in ("nquads", "trig", "trix", "json-ld", "hext") and g.chance(0.7)
    subs = [u("s"), u("café/x"), ["b", "b1"], ["b", "b2"], u("ns#frag"), u("sub/s"), u("ns#a:b"), u("ns#x.y."), u("ns#-d~e"), ["b", "bé.x-1"]]
    preds = [u("p"), u("ns#q"), ["u", writers.RDF + "type"], u("p-2"), u("sub/p")]
    gnames = [u("g1"), ["b", "gb"]]
    quads = []
    for _ in range(g.randint(1, 12 if tier == "quick" else 24)):
        s, p = g.pick(subs), g.pick(preds)
        k = g.randrange(8)
        if p[1].endswith("type") or k == 0:
            o = g.choice([u("C"), u("s"), ["b", "b1"], u("ns#a:b"), u("ns#x.y.")])
        elif k == 1:
            o = ["b", g.choice(["b1", "b2", "b3"])]
        elif k == 2:
            o = ["l", g.choice(["7", "-3", "0", "12345678901234567890"]), None, XSD + "integer"]
        elif k == 3:
            o = g.choice([["l", "true", None, XSD + "boolean"], ["l", "1.5", None, XSD + "decimal"], ["l", "false", None, XSD + "boolean"], ["l", "2020-01-01", None, XSD + "date"], ["l", "x y", None, EX + "dt"], ["l", "", None, EX + "ns#dt"]])
        elif k == 4:
            o = ["l", g.pick(STRINGS), g.choice(["en", "en-GB", "fr"]), None]
        else:
            o = ["l", g.pick(STRINGS), None, None]
        gr = g.choice([None] + gnames) if quad else None
        q = [s, p, o, gr]
        if q not in quads:
            quads.append(q)
    if g.chance(0.3):
        # an rdf:List (the syntaxes have abbreviations for it: ( ... ) in Turtle/TriG, @list in JSON-LD), in some graph of the dataset
        gr = g.choice([None] + gnames) if quad else None
        members = [g.choice([u("C"), u("s"), ["l", "7", None, XSD + "integer"], ["l", g.pick(STRINGS[:8]), None, None], ["l", "x", "en", None]]) for _ in range(g.randint(0, 3))]
        cells = [["b", "l%d" % (i + 1)] for i in range(len(members))]
        quads.append([g.pick([x for x in subs if x[0] == "u"]), g.pick([x for x in preds if not x[1].endswith("type")]), cells[0] if cells else ["u", writers.RDF + "nil"], gr])
        for i, m in enumerate(members):
            quads.append([cells[i], ["u", writers.RDF + "first"], m, gr])
            quads.append([cells[i], ["u", writers.RDF + "rest"], cells[i + 1] if i + 1 < len(cells) else ["u", writers.RDF + "nil"], gr])
    if fmt in ("turtle", "trig", "json-ld") and g.chance(0.15):
        # a list with lists as members: ( 1 ( 2 3 ) ( ) ) in Turtle/TriG, arrays within @list in JSON-LD 1.1
        gr = g.choice([None] + gnames) if quad else None
        outer = [["b", "o%d" % (i + 1)] for i in range(g.randint(1, 3))]
        quads.append([g.pick([x for x in subs if x[0] == "u"]), g.pick([x for x in preds if not x[1].endswith("type")]), outer[0], gr])
        for i, cell in enumerate(outer):
            kind = g.choice(["inner", "inner", "empty", "plain"])
            if kind == "plain":
                member = ["l", "7", None, XSD + "integer"]
            elif kind == "empty":
                member = ["u", writers.RDF + "nil"]
            else:
                inner = [["b", "i%d_%d" % (i + 1, j + 1)] for j in range(g.randint(1, 2))]
                member = inner[0]
                for j, c2 in enumerate(inner):
                    quads.append([c2, ["u", writers.RDF + "first"], g.choice([u("C"), ["l", "x", "en", None], ["l", "2", None, XSD + "integer"]]), gr])
                    quads.append([c2, ["u", writers.RDF + "rest"], inner[j + 1] if j + 1 < len(inner) else ["u", writers.RDF + "nil"], gr])
            quads.append([cell, ["u", writers.RDF + "first"], member, gr])
            quads.append([cell, ["u", writers.RDF + "rest"], outer[i + 1] if i + 1 < len(outer) else ["u", writers.RDF + "nil"], gr])
    if g.chance(0.25):
        # blank nodes hanging off one statement, two deep and side by side (the syntaxes can write them in place: [ ... ] in
        # Turtle/TriG, nested node elements / parseType="Resource" in RDF/XML, embedded node objects in JSON-LD)
        gr = g.choice([None] + gnames) if quad else None
        top, pr = g.pick(subs), g.pick([x for x in preds if not x[1].endswith("type")])
        quads.append([top, pr, ["b", "n1"], gr])
        quads.append([["b", "n1"], g.pick(preds[:2]), ["b", "n2"], gr])
        quads.append([["b", "n1"], g.pick(preds), u("C"), gr])
        quads.append([["b", "n2"], g.pick(preds[:2]), ["l", "deep", None, None], gr])
        if g.chance(0.6):
            quads.append([top, pr, ["b", "n3"], gr])
            quads.append([["b", "n3"], g.pick(preds[:2]), ["l", "side", "en", None], gr])
    if g.chance(0.15 if fmt != "xml" else 0.3):
        # a reified statement (RDF/XML can write it as rdf:ID on the property element)
        base_q = g.pick([q for q in quads if q[3] is None and not q[1][1].startswith(writers.RDF + "_")] or [quads[0]])
        who = u(g.choice(["ns#stmt1", "doc#r-1", "#top"]))
        for pr_, ob_ in (("type", ["u", writers.RDF + "Statement"]), ("subject", base_q[0]), ("predicate", base_q[1]), ("object", base_q[2])):
            quads.append([who, ["u", writers.RDF + pr_], ob_, base_q[3]])
    if fmt == "xml" and g.chance(0.25):
        # (RDF/XML has rdf:parseType="Literal" for these)
        quads.append([g.pick(subs), g.pick([x for x in preds if not x[1].endswith("type")]), ["l", g.choice(["a <b>c</b> d", "x &amp; y", '<b a="1&amp;2">t</b>', "plain"]), None, writers.RDF + "XMLLiteral"], None])
    if g.chance(0.2):
        # a container: rdf:_1 .. rdf:_k (RDF/XML has rdf:li for these)
        gr = g.choice([None] + gnames) if quad else None
        box = g.pick(subs)
        for i in range(g.randint(1, 3)):
            quads.append([box, ["u", writers.RDF + "_%d" % (i + 1)], g.choice([u("C"), ["l", "m%d" % i, None, None], ["b", "b3"]]), gr])
        if g.chance(0.4):
            # (a container inside: the numbering of rdf:li starts again in every node element)
            for i in range(g.randint(1, 2)):
                quads.append([["b", "b3"], ["u", writers.RDF + "_%d" % (i + 1)], g.choice([u("s"), ["l", "n%d" % i, None, None]]), gr])
    modes = list(MODES)
    g.shuffle(modes)
    nm = g.randint(6, len(modes))
    deliveries = []
    for i, m in enumerate(modes[:nm]):
        deliveries.append({"uid": i + 1, "k": "deliver", "mode": m, "chunks": chunk_schedule(g), "give_format": g.chance(0.8)})
    if g.chance(0.5):
        # fault deliveries: stream faults at a fraction of the document, or HTTP faults
        for j in range(g.randint(1, 3)):
            m = g.choice(["file-raw", "source-raw", "file-text", "textwrap-raw", "loc-http", "fis-raw"])
            fk = g.choice(["error", "eof", "error", "eof", "http-404", "http-500", "redirect-loop"]) if m == "loc-http" else g.choice(["error", "eof"])
            deliveries.append({"uid": nm + j + 1, "k": "deliver", "mode": m, "chunks": chunk_schedule(g), "give_format": True, "fault": {"kind": fk, "frac": g.random()}})
    cfg = {"format": fmt, "quads": quads, "style_seed": g.randrange(1 << 30), "bufsiz": g.choice([1, 2, 5, 17, 64, 2048, 2048]), "enumerate": False}
    if fmt in ("turtle", "trig") and g.chance(0.1):
        cfg["bom"] = True  # the document starts with a byte order mark (U+FEFF): it is not part of the document, however it is handed over
    if fmt in ("turtle", "trig", "json-ld", "xml") and g.chance(0.2):
        # the base comes from the caller of parse() (publicID=...): the document declares none and writes references relative to it,
        # and every way of handing the document over must resolve them against it
        cfg["publicid"] = EX
    if tier == "thorough" and g.chance(0.15) and len(quads) <= 4:
        cfg["enumerate"] = True
    return {"property": ID, "config": cfg, "ops": deliveries}


def nontrivial(trace, res):
    p = res.get("probes", {})
    return p.get("fault-free-deliveries", 0) >= 6 and len(trace["config"]["quads"]) >= 3 and p.get("short-read-stream", 0) >= 1


def _norm(k):
    if k[0] == "l" and k[3] == XSD + "string":
        return ("l", k[1], k[2], None)
    return k


def observe(ds):
    out = set()
    st = ds.store
    for c in list(st.contexts()):
        ck = key(c.identifier)
        for (s, p, o), _ in st.triples((None, None, None), c):
            out.add((_norm(key(s)), _norm(key(p)), _norm(key(o)), ck))
    return out


def make_doc(cfg):
    import random

    from rdflib import Dataset, Graph

    fmt = cfg["format"]
    quads = cfg["quads"]
    xb = cfg.get("publicid")
    if xb and fmt in ("turtle", "trig"):
        return writers.WRITERS[fmt](quads, random.Random(cfg["style_seed"]), ext_base=xb)
    if fmt in OWN:
        return writers.WRITERS[fmt](quads, random.Random(cfg["style_seed"]))
    if _own_xml(cfg):
        if (cfg["style_seed"] // 4) % 3:
            # (two thirds of them with the syntax's abbreviated forms)
            return writers.write_rdfxml_rich([q for q in quads if q[3] is None], random.Random(cfg["style_seed"]), ext_base=xb)
        return writers.write_rdfxml([q for q in quads if q[3] is None], random.Random(cfg["style_seed"]), ext_base=xb)
    if _own_jsonld(cfg):
        # (three quarters of the JSON-LD documents come from the independent writer - expanded form, @graph, @list - the rest from rdflib)
        if (cfg["style_seed"] // 4) % 3:
            # (two thirds of them with a context: prefixes, @vocab, @base, coercing terms, containers, reverse, embedded nodes)
            return writers.write_jsonld_compact(quads, random.Random(cfg["style_seed"]), ext_base=xb)
        return writers.write_jsonld(quads, random.Random(cfg["style_seed"]), ext_base=xb)
    ds = Dataset()
    for s, p, o, g in quads:
        (ds.graph(T(g)) if g is not None else ds.default_graph).add((T(s), T(p), T(o)))
    if fmt == "xml":
        src = Graph()
        for t in ds.default_graph:
            src.add(t)
        return src.serialize(format="xml")
    return ds.serialize(format=fmt)


def _own_xml(cfg):
    """RDF/XML: three quarters of the documents come from the independent writer (xml:base per element, an ambient xml:lang that literals
    inherit or switch off), the other half from rdflib's serialiser"""
    return cfg["format"] == "xml" and (cfg["style_seed"] % 4 != 0 or cfg.get("publicid")) and all(t is None or t[0] != "b" or writers._NCNAME.match(t[1]) for q in cfg["quads"] for t in q)


def _own_jsonld(cfg):
    return cfg["format"] == "json-ld" and bool(cfg.get("publicid") or cfg["style_seed"] % 4 != 0)


class _NoClose(io.BytesIO):
    pass


def execute(trace, ctx):
    import warnings

    import rdflib.plugins.parsers.ntriples as ntmod
    from rdflib import Dataset
    from rdflib.parser import FileInputSource, StringInputSource

    warnings.simplefilter("ignore")
    cfg = trace["config"]
    fmt = cfg["format"]
    ntmod.bufsiz = cfg.get("bufsiz", 2048)
    try:
        doc = make_doc(cfg)
    except Exception as e:  # rdflib's own serialiser refused this graph: not a delivery matter
        ctx.log("make-doc-failed", type(e).__name__)
        return
    # which writer wrote the document (reach: the evidence counts documents per writer)
    if fmt in OWN:
        ctx.probe("writer-own-" + fmt)
    elif _own_xml(cfg):
        ctx.probe("writer-own-xml-abbreviated" if (cfg["style_seed"] // 4) % 3 else "writer-own-xml-plain")
    elif _own_jsonld(cfg):
        ctx.probe("writer-own-jsonld-with-context" if (cfg["style_seed"] // 4) % 3 else "writer-own-jsonld-expanded")
    else:
        ctx.probe("writer-rdflib-" + fmt)
    if cfg.get("bom"):
        doc = "\ufeff" + doc
        ctx.probe("document-starts-with-BOM")
    data = doc.encode("utf-8")
    benc = "utf-8"
    if _own_xml(cfg) and cfg["style_seed"] % 3 == 0:
        # an XML document says itself how its bytes are to be decoded: ISO-8859-1 when every character fits
        try:
            data = doc.replace('encoding="utf-8"', 'encoding="ISO-8859-1"', 1).encode("latin-1")
            doc, benc = doc.replace('encoding="utf-8"', 'encoding="ISO-8859-1"', 1), "latin-1"
            ctx.probe("xml-bytes-not-utf8")
        except UnicodeEncodeError:
            pass
    if any("\r" in (q[2][1] if q[2][0] == "l" else "") for q in cfg["quads"]) and b"\r" in data:
        ctx.probe("raw-CR-in-literal")
    if fmt in LINE_FORMATS and any(len(line) > ntmod.bufsiz for line in doc.splitlines()):
        ctx.probe("bufsiz-smaller-than-line")
    tmpdir = tempfile.mkdtemp(prefix="verif-c05-", dir="/var/tmp")
    net = SimNet({}, stats=ctx.faults)
    routes = net.routes
    kernel.NET = kernel.refuse_network(net)

    def parse_with(kwargs):
        ds = Dataset()
        if cfg.get("publicid") and "publicID" not in kwargs:
            kwargs = dict(kwargs, publicID=cfg["publicid"])
        ds.parse(**kwargs)
        return observe(ds)

    def probe_boundaries(chunks, raw=True):
        # where do chunk boundaries fall?  (only meaningful for streams that are read with bounded read(n))
        pos = 0
        k = 0
        unit = data if raw else doc
        while pos < len(unit) and k < 5000:
            pos += chunks[k % len(chunks)]
            k += 1
            if pos >= len(unit):
                break
            if raw and (unit[pos] & 0xC0) == 0x80:
                ctx.probe("chunk-inside-multibyte-char")
            ch_prev = unit[pos - 1 : pos]
            ch_next = unit[pos : pos + 1]
            if ch_prev in (b"\r", "\r") and ch_next in (b"\n", "\n"):
                ctx.probe("chunk-between-CR-LF")
            window = unit[max(0, pos - 5) : pos]
            if (b"\\u" in window or b"\\" == window[-1:]) if raw else ("\\u" in window or window[-1:] == "\\"):
                ctx.probe("chunk-inside-escape")

    to_close = []

    def build(op, fault):
        """returns (kwargs for parse, stream or None)"""
        mode = op["mode"]
        chunks = op["chunks"]
        f = fmt  # the format is withheld only in the two modes that have something to guess from (extension / content type)
        kw = {}
        stream = None
        ext = EXT[fmt]
        if mode == "data-str":
            kw = {"data": doc}
        elif mode == "data-bytes":
            kw = {"data": data}
        elif mode == "source-bytes":
            kw = {"source": data}
        elif mode == "file-bytesio":
            b = io.BytesIO(data)
            b.name = "doc." + ext
            kw = {"file": b}
        elif mode == "source-stringio":
            kw = {"source": io.StringIO(doc)}
        elif mode == "file-bytesio-nameless":
            kw = {"file": io.BytesIO(data)}  # a file object need not have a name
        elif mode == "file-stringio":
            kw = {"file": io.StringIO(doc)}
        elif mode == "file-textwrapper-nameless":
            kw = {"file": io.TextIOWrapper(io.BytesIO(data), encoding=benc, newline="")}
        elif mode == "textfile-utf16":
            # a real file opened in text mode whose bytes are not UTF-8: the characters are the document
            pth = os.path.join(tmpdir, f"utf16-{op['uid']}." + ext)
            enc = "utf-16"
            try:
                if op["uid"] % 2 and doc.encode("latin-1") != data:
                    enc = "latin-1"  # (possible when no character is beyond U+00FF; the bytes then are not even valid UTF-8)
                    ctx.probe("text-file-latin-1")
            except UnicodeEncodeError:
                pass
            with open(pth, "w", encoding=enc, newline="") as fh:
                fh.write(doc)
            opened = open(pth, encoding=enc, newline="")
            to_close.append(opened)
            kw = {"file": opened}
            ctx.probe("text-file-not-utf8")
        elif mode == "textwrap-raw":
            stream = SimRaw(data, chunks, fault, name="doc." + ext, stats=ctx.faults)
            kw = {"file": io.TextIOWrapper(io.BufferedReader(stream, buffer_size=max(chunks[0], 16)), encoding=benc, newline="")}
            probe_boundaries(chunks)
        elif mode in ("file-raw", "source-raw", "fis-raw"):
            stream = SimRaw(data, chunks, fault, name="doc." + ext, stats=ctx.faults)
            kw = {"file": stream} if mode == "file-raw" else {"source": stream} if mode == "source-raw" else {"source": FileInputSource(stream)}
            probe_boundaries(chunks)
            ctx.probe("short-read-stream")
        elif mode in ("file-text", "source-text"):
            stream = SimText(doc, chunks, fault, name="doc." + ext, stats=ctx.faults)
            kw = {"file": stream} if mode == "file-text" else {"source": stream}
            probe_boundaries(chunks, raw=False)
            ctx.probe("short-read-stream")
            ctx.probe("text-stream-without-buffer")
        elif mode == "data-noformat-publicid":
            # str / bytes with no format given: Turtle is the documented default, whatever the public id (base IRI) looks like
            pid = ["http://ex.org/onto/pizza.owl", "http://ex.org/data.nt", "http://ex.org/x.json", "http://ex.org/doc.html", "http://ex.org/d.rdf"][op["uid"] % 5]
            if cfg.get("publicid"):
                pid = cfg["publicid"]  # (the document is written relative to that base)
            kw = {"data": doc if op["uid"] % 2 else data, "publicID": pid}
            f = fmt if fmt != "turtle" else None
            if f is None:
                ctx.probe("default-format-turtle")
        elif mode in ("path-relative-late", "path-relative-chdir"):
            # a relative path: resolved against the working directory at the time of the call
            da, db = os.path.join(tmpdir, f"wd{op['uid']}a"), os.path.join(tmpdir, f"wd{op['uid']}b")
            os.makedirs(da, exist_ok=True)
            os.makedirs(db, exist_ok=True)
            rel = f"late{op['uid']}.{ext}"
            from rdflib import Dataset as _DS

            if mode == "path-relative-late":
                os.chdir(da)
                try:
                    _DS().parse(rel, format=fmt)  # the file does not exist yet: this call must fail ...
                    ctx.deviation("C05.missing-file-parsed", f"parsing the non-existent relative path {rel} did not raise")
                except Exception:
                    pass
                with open(os.path.join(da, rel), "wb") as fh:  # ... and leave nothing behind that a later call could trip over
                    fh.write(data)
                ctx.probe("relative-path-after-failed-call")
            else:
                with open(os.path.join(da, rel), "wb") as fh:
                    fh.write(b"" if fmt in ("json-ld",) else b"\n")  # another (empty) document under the same relative name
                with open(os.path.join(db, rel), "wb") as fh:
                    fh.write(data)
                os.chdir(da)
                try:
                    _DS().parse(rel, format=fmt)
                except Exception:
                    pass
                os.chdir(db)
                ctx.probe("relative-path-after-chdir")
            kw = {"source": rel}
        elif mode in ("byteswrapper-text", "byteswrapper-str"):
            # an InputSource that only offers rdflib's BytesIOWrapper as byte stream: parsers read it in sized chunks
            # (re-encoding a character stream on the fly, with its _leftover buffer)
            from rdflib.parser import BytesIOWrapper, InputSource

            src = InputSource()
            if mode == "byteswrapper-text" and fmt in ("hext", "json-ld"):
                # these two parsers put a TextIOWrapper on a bare byte stream, which BytesIOWrapper over a character stream
                # documents it cannot serve (read1); not a delivery the statement speaks of
                mode = "byteswrapper-str"
            if mode == "byteswrapper-text":
                stream = SimText(doc, chunks, fault, name="doc." + ext, stats=ctx.faults)
                src.setByteStream(BytesIOWrapper(stream, benc))
                ctx.probe("short-read-stream")
            else:
                src.setByteStream(BytesIOWrapper(doc, benc))
            kw = {"source": src}
        elif mode == "sis-str":
            kw = {"source": StringInputSource(doc)}
        elif mode == "sis-bytes":
            kw = {"source": StringInputSource(data)}
        elif mode in ("path-str", "path-pathlib", "loc-file", "path-guess"):
            # file and directory names a user may well have: spaces, non-ASCII, percent signs that look like escapes
            stem = ["doc", "doc with space", "d\u00f6c-\u00e9", "doc%41x", "doc+plus", "doc,comma"][op["uid"] % 6]
            sub = ["", "dir with space", "d\u00efr"][(op["uid"] // 6) % 3]
            if sub:
                os.makedirs(os.path.join(tmpdir, sub), exist_ok=True)
                ctx.probe("awkward-path")
            if stem != "doc":
                ctx.probe("awkward-path")
            pth = os.path.join(tmpdir, sub, f"{stem}{op['uid']}." + (ext if mode == "path-guess" or op["uid"] % 2 else "dat"))
            with open(pth, "wb") as fh:
                fh.write(data)
            if mode == "path-str":
                kw = {"source": pth}
            elif mode == "path-pathlib":
                kw = {"source": pathlib.Path(pth)}
            elif mode == "loc-file":
                kw = {"location": pathlib.Path(pth).as_uri()}
            else:
                kw = {"source": pth}
                f = None if fmt in ("nt", "nquads", "turtle", "trig", "xml", "trix", "json-ld") else fmt
                if f is None:
                    ctx.probe("format-guessed")
        elif mode in ("loc-http", "loc-http-redirect", "http-guess"):
            url = f"http://sim.example/doc{op['uid']}.{ext}"
            ct = CTYPE.get(fmt, "application/octet-stream")
            body = data
            status = 200
            headers = {"Content-Type": ct + ("; charset=utf-8" if op["uid"] % 2 else "")}
            if fault is not None and fault["kind"].startswith("http-"):
                status = int(fault["kind"][5:])
                body = b"<html>error</html>"
                headers = {"Content-Type": "text/html"}
            routes[url] = (status, headers, body)
            target = url
            if mode == "loc-http-redirect":
                target = f"http://sim.example/moved{op['uid']}"
                routes[target] = (302, {"Location": url}, b"")
                ctx.probe("http-redirect")
            if fault is not None and fault["kind"] == "redirect-loop":
                routes[url] = (302, {"Location": url}, b"")
            if fault is not None and fault["kind"] in ("error", "eof"):
                # response body that dies mid-way
                class _Net(SimNet):
                    pass

                routes[url] = (200, headers, body)
                orig = net.__call__

                def faulty(req, *a, **k2):
                    import email.message
                    import urllib.response

                    msg = email.message.Message()
                    for hk, hv in headers.items():
                        msg[hk] = hv
                    nonlocal stream
                    stream = SimRaw(body, chunks, fault, stats=ctx.faults)
                    return urllib.response.addinfourl(io.BufferedReader(stream, buffer_size=16), msg, url, 200)

                kernel.refuse_network(faulty)
            kw = {"location": target}
            if mode == "http-guess":
                f = None if fmt in CTYPE else fmt
                if f is None:
                    ctx.probe("format-guessed")
        else:
            raise ValueError(mode)
        if f is not None:
            kw["format"] = f
        return kw, (lambda: stream)

    try:
        base = parse_with({"data": doc, "format": fmt})
        if fmt in OWN or _own_xml(cfg) or _own_jsonld(cfg):
            # intended graph: default-graph triples land in the Dataset's default graph
            D = set()
            for s, p, o, g in cfg["quads"] if fmt != "xml" else [q for q in cfg["quads"] if q[3] is None]:
                D.add((_norm(skey(s)), _norm(skey(p)), _norm(skey(o)), ("u", "urn:x-rdflib:default") if g is None else skey(g)))
            ctx.check(iso.isomorphic(D, base), "C05.intended-graph", lambda: f"{fmt}: data=str result differs from the graph the writer was given: intended-only={_srt(D - base)} got-only={_srt(base - D)}\n{doc}")
        ops = list(trace["ops"])
        if cfg.get("enumerate"):
            # fault enumeration: every byte offset of this (small) document, both fault kinds, through the raw stream
            for k in range(len(data)):
                for fk in ("error", "eof"):
                    ops.append({"uid": 1000 + 2 * k + (fk == "eof"), "k": "deliver", "mode": "file-raw", "chunks": [max(1, len(data) // 3)], "give_format": True, "fault": {"kind": fk, "at": k}})
        for op in ops:
            mode = op["mode"]
            ctx.op(fmt, mode + ("+fault" if op.get("fault") else ""))
            fault = None
            if op.get("fault"):
                fk = op["fault"]["kind"]
                if fk in ("error", "eof"):
                    n = len(doc) if mode in ("file-text", "source-text") else len(data)
                    at = op["fault"].get("at")
                    if at is None:
                        at = int(op["fault"]["frac"] * n)
                    fault = {"kind": fk, "at": min(at, max(n - 1, 0))}
                else:
                    fault = {"kind": fk}
            kernel.refuse_network(net)
            kw, getstream = build(op, fault)
            err = got = None
            try:
                with ctx.budget(BUDGET if (fault is not None or op["chunks"][0] < 4) else None, "parse"):
                    got = parse_with(kw)
            except Exception as e:
                err = e
            stream = getstream()
            if fault is None:
                ctx.probe("fault-free-deliveries")
                if err is not None:
                    ctx.deviation("C05.delivery-raised", f"{fmt} via {mode} (chunks {op['chunks']}, bufsiz {ntmod.bufsiz}, format {'given' if 'format' in kw else 'guessed'}) raised {type(err).__name__}: {err}\n{doc[:1500]}", mode=mode, fmt=fmt, err=type(err).__name__, has_cr=b"\r" in data)
                else:
                    ctx.check(
                        iso.isomorphic(got, base),
                        "C05.delivery-differs",
                        lambda: f"{fmt} via {mode} (chunks {op['chunks']}, bufsiz {ntmod.bufsiz}) differs from data=str: only-this={_srt(got - base)} only-baseline={_srt(base - got)}\n{doc[:1500]}",
                        mode=mode,
                        fmt=fmt,
                        has_cr=b"\r" in data,
                        only_cr_differs=_only_cr(got, base),
                    )
            else:
                fired = (stream is not None and stream.fired) or fault["kind"].startswith("http") or fault["kind"] == "redirect-loop"
                if fired:
                    ctx.probe("fault-fired")
                    if fault["kind"].startswith("http") or fault["kind"] == "redirect-loop":
                        ctx.check(err is not None, "C05.http-error-ignored", lambda: f"{fault['kind']} response was parsed as if it were the document: {_srt(got)[:5]}")
                    elif got is not None and (fault["kind"] == "error" or fmt in LINE_FORMATS):
                        m = iso.find_embedding(got, base)
                        ctx.check(m is not None, "C05.fault-garbage", lambda: f"{fmt} via {mode} under {fault}: result contains statements the full document does not: {_srt(got - base)}")
                        if got != base:
                            ctx.probe("fault-partial")
                elif err is None:
                    ctx.check(iso.isomorphic(got, base), "C05.delivery-differs", lambda: f"{fmt} via {mode} (fault armed but not reached) differs from data=str")
            ctx.log("deliver", f"{mode} fault={fault} err={type(err).__name__ if err else None} n={len(got) if got is not None else None}")
            ctx.state(fmt, mode, tuple(op["chunks"]), repr(fault), type(err).__name__ if err else None, len(data), cfg["style_seed"] % 997, ntmod.bufsiz)
    finally:
        import shutil

        os.chdir("/")
        for fh in to_close:
            fh.close()
        shutil.rmtree(tmpdir, ignore_errors=True)


def _only_cr(a, b):
    def strip(qs):
        return {tuple((k[0], k[1].replace("\r\n", "\n").replace("\r", "\n")) + tuple(k[2:]) if k[0] == "l" else k for k in q) for q in qs}

    return strip(a) == strip(b) or iso.isomorphic(strip(a), strip(b))


def simplify(trace):
    import copy

    for j in range(len(trace["config"]["quads"])):
        t = copy.deepcopy(trace)
        del t["config"]["quads"][j]
        yield t
    if trace["config"]["bufsiz"] != 2048:
        t = copy.deepcopy(trace)
        t["config"]["bufsiz"] = 2048
        yield t
    for i, op in enumerate(trace["ops"]):
        if op["chunks"] != [1048576] and not op.get("fault"):
            t = copy.deepcopy(trace)
            t["ops"][i]["chunks"] = [1048576]
            yield t
        if len(op["chunks"]) > 1:
            t = copy.deepcopy(trace)
            t["ops"][i]["chunks"] = op["chunks"][:1]
            yield t
