"""Simulated I/O: byte and character streams with seeded short reads and injected faults, failing
destinations, and an in-process network (SimNet) behind rdflib's urlopen seams.

A chunk schedule is a list of positive ints used cyclically: read k returns at most chunks[k % len] units
(and never more than asked).  A fault is {"kind": "error"|"eof", "at": offset}: bytes/chars before `at` are
delivered, then the stream raises OSError(EIO) / pretends to end.
"""
from __future__ import annotations

import errno
import io


class SimRaw(io.RawIOBase):
    """raw byte stream with short reads (legal behaviour of pipes, sockets, slow disks)"""

    def __init__(self, data: bytes, chunks=None, fault=None, name="sim-stream.bin", stats=None):
        super().__init__()
        self._data = data
        self._pos = 0
        self._chunks = chunks or [1 << 20]
        self._k = 0
        self._fault = fault
        self.name = name
        self.stats = stats if stats is not None else {}
        self.fired = False

    def readable(self):
        return True

    def seekable(self):
        return False

    def readinto(self, b):
        if self.closed:
            raise ValueError("I/O operation on closed file")
        n = min(len(b), self._chunks[self._k % len(self._chunks)], len(self._data) - self._pos)
        self._k += 1
        if self._fault is not None:
            at = self._fault["at"]
            if self._pos >= at:
                self.fired = True
                self.stats["fault-" + self._fault["kind"]] = self.stats.get("fault-" + self._fault["kind"], 0) + 1
                if self._fault["kind"] == "error":
                    raise OSError(errno.EIO, "simulated read error")
                return 0
            n = min(n, at - self._pos)
        if n <= 0:
            return 0
        b[:n] = self._data[self._pos : self._pos + n]
        self._pos += n
        if self._fault is not None and self._fault["kind"] == "eof" and self._pos >= self._fault["at"]:
            self.fired = True  # the consumer has now been handed a truncated document
            self.stats["fault-eof"] = self.stats.get("fault-eof", 0) + 1
        self.stats["stream-reads"] = self.stats.get("stream-reads", 0) + 1
        if n < len(b):
            self.stats["stream-short-reads"] = self.stats.get("stream-short-reads", 0) + 1
        return n


class SimText(io.TextIOBase):
    """character stream with short reads; has .encoding but no .buffer (like a decoded network stream)"""

    encoding = "utf-8"

    def __init__(self, text: str, chunks=None, fault=None, name="sim-stream.txt", stats=None):
        super().__init__()
        self._data = text
        self._pos = 0
        self._chunks = chunks or [1 << 20]
        self._k = 0
        self._fault = fault
        self.name = name
        self.stats = stats if stats is not None else {}
        self.fired = False

    def readable(self):
        return True

    def seekable(self):
        return False

    def _limit(self):
        if self._fault is None:
            return len(self._data)
        return min(len(self._data), self._fault["at"])

    def _maybe_fault(self):
        if self._fault is not None and self._pos >= self._fault["at"]:
            self.fired = True
            self.stats["fault-" + self._fault["kind"]] = self.stats.get("fault-" + self._fault["kind"], 0) + 1
            if self._fault["kind"] == "error":
                raise OSError(errno.EIO, "simulated read error")
            return True
        return False

    def read(self, size=-1):
        if self.closed:
            raise ValueError("I/O operation on closed file")
        if self._maybe_fault():
            return ""
        lim = self._limit()
        if size is None or size < 0:
            n = lim - self._pos  # read-all: a real file object loops until EOF
            if self._fault is not None and self._fault["kind"] == "error" and lim < len(self._data):
                self._pos = lim
                self._maybe_fault()
        else:
            n = min(size, self._chunks[self._k % len(self._chunks)], lim - self._pos)
            self._k += 1
            if 0 <= n < size:
                self.stats["stream-short-reads"] = self.stats.get("stream-short-reads", 0) + 1
        out = self._data[self._pos : self._pos + max(n, 0)]
        self._pos += len(out)
        self.stats["stream-reads"] = self.stats.get("stream-reads", 0) + 1
        self._note_truncation()
        return out

    def _note_truncation(self):
        if self._fault is not None and self._fault["kind"] == "eof" and self._pos >= self._fault["at"] and not self.fired:
            self.fired = True
            self.stats["fault-eof"] = self.stats.get("fault-eof", 0) + 1

    def readline(self, size=-1):
        if self._maybe_fault():
            return ""
        lim = self._limit()
        i = self._data.find("\n", self._pos, lim)
        end = lim if i < 0 else i + 1
        if size is not None and size >= 0:
            end = min(end, self._pos + size)
        if i < 0 and end == lim and lim < len(self._data) and self._fault["kind"] == "error":
            # the line cannot be completed before the device fails: a real file object raises here, it does not hand out half a line
            self._pos = lim
            self._maybe_fault()
        out = self._data[self._pos : end]
        self._pos = end
        self._note_truncation()
        return out


class FailingSink(io.RawIOBase):
    """destination whose k-th write fails (ENOSPC / EPIPE); collects what was accepted"""

    def __init__(self, fail_at_write=None, err=errno.ENOSPC, name="sim-dest.bin", stats=None):
        super().__init__()
        self.accepted = bytearray()
        self._n = 0
        self._fail = fail_at_write
        self._err = err
        self.name = name
        self.stats = stats if stats is not None else {}
        self.fired = False

    def writable(self):
        return True

    def write(self, b):
        self._n += 1
        if self._fail is not None and self._n >= self._fail:
            self.fired = True
            raise OSError(self._err, "simulated write failure")
        self.accepted += bytes(b)
        return len(b)


def chunk_schedule(rng, kind=None):
    kind = kind or rng.choice(["whole", "one", "tiny", "small", "mixed"])
    if kind == "whole":
        return [1 << 20]
    if kind == "one":
        return [1]
    if kind == "tiny":
        return [rng.randint(1, 3) for _ in range(7)]
    if kind == "small":
        return [rng.randint(1, 17) for _ in range(5)]
    return [rng.choice([1, 2, 3, 5, 8, 64, 4096]) for _ in range(9)]


class SimNet:
    """In-process web: routes url -> (status, headers dict, body bytes).  Installed behind rdflib's urlopen seams with
    kernel.refuse_network(handler).  Unknown hosts are refused; every request is recorded."""

    def __init__(self, routes=None, stats=None):
        self.routes = dict(routes or {})
        self.calls = 0
        self.log = []
        self.stats = stats if stats is not None else {}

    def __call__(self, req, *a, **kw):
        import email.message
        import urllib.error
        import urllib.response

        self.calls += 1
        url = req.full_url if hasattr(req, "full_url") else str(req)
        for _ in range(6):
            self.log.append(url)
            r = self.routes.get(url)
            if r is None:
                self.stats["net-refused"] = self.stats.get("net-refused", 0) + 1
                raise urllib.error.URLError("simulated network: connection refused")
            status, headers, body = r
            msg = email.message.Message()
            for k, v in headers.items():
                msg[k] = v
            if status in (301, 302, 303, 307, 308) and "Location" in headers:
                self.stats["net-redirect"] = self.stats.get("net-redirect", 0) + 1
                url = headers["Location"]
                continue
            if status >= 400:
                self.stats["net-http-%d" % status] = self.stats.get("net-http-%d" % status, 0) + 1
                raise urllib.error.HTTPError(url, status, "simulated", msg, io.BytesIO(body))
            self.stats["net-200"] = self.stats.get("net-200", 0) + 1
            # body: bytes, or a callable that opens a fresh stream per request (a body that fails or ends midway)
            return urllib.response.addinfourl(body() if callable(body) else io.BytesIO(body), msg, url, status)
        raise urllib.error.URLError("simulated network: redirect loop")
