"""One integer decides everything.

run_seed(base, prop, i) depends only on (VERIF_SEED, property id, run index).
Every random choice of a run is drawn from a Stream keyed by (run_seed, label);
labels are stable uids, so deleting an operation while shrinking does not shift
the randomness of the others.  Nothing here reads a clock.
"""
from __future__ import annotations

import hashlib
import random

MASK = (1 << 63) - 1
NHASH = 16  # PYTHONHASHSEED values explored; hashseed = run_seed % NHASH


def _h(*parts) -> int:
    m = hashlib.sha256()
    for p in parts:
        m.update(str(p).encode("utf-8"))
        m.update(b"\x00")
    return int.from_bytes(m.digest()[:8], "big") & MASK


def run_seed(base: int, prop: str, i: int) -> int:
    return _h("run", base, prop, i)


def hashseed_of(seed: int) -> int:
    return seed % NHASH


class Stream(random.Random):
    """Independent PRNG sub-stream keyed by (seed, label)."""

    def __init__(self, seed: int, label: str):
        super().__init__(_h("stream", seed, label))
        self.label = label

    def chance(self, p: float) -> bool:
        return self.random() < p

    def pick(self, seq):
        return seq[self.randrange(len(seq))]

    def weighted(self, pairs):
        """pairs: list of (item, weight)"""
        tot = sum(w for _, w in pairs)
        x = self.random() * tot
        for it, w in pairs:
            x -= w
            if x < 0:
                return it
        return pairs[-1][0]
