"""Simulator kernel: run context, violation protocol, deterministic step budget,
forked execution of one run, event-log digest.

A *trace* is a JSON-able dict {"property", "run_seed", "hashseed", "config", "ops"}.
replay == execute(trace): execution never draws from the generator's PRNGs.
"""
from __future__ import annotations

import hashlib
import importlib
import json
import os
import select
import signal
import sys
import time
import traceback

VERIF_DIR = os.path.dirname(os.path.dirname(os.path.abspath(__file__)))
REPO = os.path.realpath(os.environ.get("VERIF_REPO", "/repo"))

CLAIMED = ["C01", "C02", "C05", "C10", "C12", "C13", "C15", "C17", "C18", "C19", "C20"]


class Violation(BaseException):
    """The property does not hold on this run (oracle = channel id).
    (a BaseException, like StepBudgetExceeded: an `except Exception` in a workload - or in rdflib - that tolerates failing calls
    must not swallow the verdict of a check made inside that call)"""

    def __init__(self, oracle: str, detail: str, facts=None):
        super().__init__(f"{oracle}: {detail}")
        self.oracle = oracle
        self.detail = detail
        self.facts = facts or {}


class KnownStop(BaseException):
    """A listed known finding corrupted state; the run ends here, tallied as known."""


class StepBudgetExceeded(BaseException):
    """Deterministic liveness bound exceeded (line events, not wall time)."""


class HarnessError(Exception):
    pass


def load_prop(pid: str):
    if VERIF_DIR not in sys.path:
        sys.path.insert(0, VERIF_DIR)
    return importlib.import_module("props." + pid.lower())


def ensure_repo_on_path():
    """rdflib is imported from the current working tree of VERIF_REPO: nothing is built or cached."""
    if REPO not in sys.path[:1]:
        sys.path.insert(0, REPO)
    sys.dont_write_bytecode = True
    import rdflib  # noqa

    got = os.path.realpath(os.path.dirname(os.path.dirname(rdflib.__file__)))
    if got != REPO:
        raise HarnessError(f"rdflib imported from {got}, expected {REPO}")


# --------------------------------------------------------------------------
# step budget


class _Budget:
    def __init__(self, ctx, limit, what):
        self.ctx, self.limit, self.what = ctx, limit, what
        self.count = 0

    def _local(self, frame, event, arg):
        if event == "line":
            self.count += 1
            if self.count > self.limit:
                sys.settrace(None)
                raise StepBudgetExceeded(f"{self.what}: more than {self.limit} line events")
        return self._local

    def _global(self, frame, event, arg):
        return self._local

    def __enter__(self):
        if self.ctx._budget_depth == 0:
            sys.settrace(self._global)
        self.ctx._budget_depth += 1
        return self

    def __exit__(self, et, ev, tb):
        self.ctx._budget_depth -= 1
        if self.ctx._budget_depth == 0:
            sys.settrace(None)
        self.ctx.max_steps[self.what] = max(self.ctx.max_steps.get(self.what, 0), self.count)
        return False


class _NoBudget:
    def __enter__(self):
        return self

    def __exit__(self, *a):
        return False


# --------------------------------------------------------------------------
# run context


class Ctx:
    """Collects the event log, probes and known-finding tallies of one run."""

    def __init__(self, prop, known=None, keep_log=False):
        self.prop = prop
        self.known = [k for k in (known or []) if k.get("property") == prop.ID and k.get("status") == "known"]
        self._dig = hashlib.sha256()
        self.seq = 0
        self.keep_log = keep_log
        self.events = []
        self.probes = {}
        self.opkinds = {}
        self.faults = {}
        self.states = set()
        self.kgrams = set()
        self._recent = []
        self.known_hits = {}
        self.max_steps = {}
        self._budget_depth = 0
        self.checks = 0

    # event log -----------------------------------------------------------
    def log(self, kind, summary=""):
        """Append (seq, kind, summary).  Never draws randomness, never reads a clock."""
        self.seq += 1
        line = f"{self.seq}|{kind}|{summary}"
        self._dig.update(line.encode("utf-8", "backslashreplace"))
        self._dig.update(b"\n")
        if self.keep_log:
            self.events.append(line)

    def op(self, actor, kind):
        k = f"{actor}:{kind}" if actor else kind
        self.opkinds[k] = self.opkinds.get(k, 0) + 1
        self._recent.append(k)
        if len(self._recent) > 4:
            self._recent.pop(0)
        self.kgrams.add(_h64("|".join(self._recent)))

    def probe(self, name, n=1):
        self.probes[name] = self.probes.get(name, 0) + n

    def fault(self, name):
        self.faults[name] = self.faults.get(name, 0) + 1

    def state(self, *parts):
        self.states.add(_h64(repr(parts)))

    def digest(self):
        return self._dig.hexdigest()

    # oracles -------------------------------------------------------------
    def check(self, cond, oracle, detail, **facts):
        self.checks += 1
        if not cond:
            return self.deviation(oracle, detail() if callable(detail) else detail, **facts)
        return None

    def deviation(self, oracle, detail, **facts):
        """A deviation from the model on channel `oracle`.  If a listed known finding's
        predicate holds it is tallied and 'known' is returned; else Violation."""
        for k in self.known:
            if k.get("channel") == oracle:
                pred = self.prop.KNOWN_PREDICATES.get(k["id"])
                if pred is not None and pred(facts):
                    self.known_hits[k["id"]] = self.known_hits.get(k["id"], 0) + 1
                    self.log("known", k["id"])
                    return "known"
        self.log("violation", oracle)
        raise Violation(oracle, detail, facts)

    def budget(self, limit, what):
        if limit is None:
            return _NoBudget()
        return _Budget(self, limit, what)


def _h64(s: str) -> int:
    return int.from_bytes(hashlib.blake2b(s.encode("utf-8", "backslashreplace"), digest_size=8).digest(), "big")


# --------------------------------------------------------------------------
# executing one trace in this process


def _frames_in_repo(tb) -> bool:
    while tb is not None:
        fn = os.path.realpath(tb.tb_frame.f_code.co_filename)
        if fn.startswith(REPO + os.sep):
            return True
        tb = tb.tb_next
    return False


def install_seams(seed):
    """Randomness behind a seam: BNode ids (term.uuid4), the N3 sink's per-parse uuid, uuid.uuid4 and the
    global `random` module are all driven by the run seed, so a replay in a fresh interpreter sees what the batch saw."""
    import random
    import sys as _sys
    import uuid as _uuid

    r = random.Random(seed ^ 0x5EED5EED)
    real_uuid = _uuid.UUID

    def fake_uuid4():
        return real_uuid(int=r.getrandbits(128), version=4)

    _uuid.uuid4 = fake_uuid4
    for modname in ("rdflib.term", "rdflib.plugins.parsers.notation3"):
        mod = _sys.modules.get(modname)
        if mod is not None and hasattr(mod, "uuid4"):
            mod.uuid4 = fake_uuid4
    random.seed(seed)
    global NET
    NET = refuse_network()


NET = None


class _Refused:
    """default SimNet: the network is unreachable (deterministically) unless a check installs its own handler"""

    def __init__(self):
        self.calls = 0

    def __call__(self, req, *a, **kw):
        import urllib.error

        self.calls += 1
        raise urllib.error.URLError("simulated network: connection refused")


def counting_subscriber(store, ctx):
    """a legal configuration that must change nothing: a store-level subscriber that only counts additions"""
    from rdflib.store import TripleAddedEvent

    n = [0]

    def on_add(event):
        n[0] += 1

    store.dispatcher.subscribe(TripleAddedEvent, on_add)
    ctx.probe("benign-subscriber")
    return n


def refuse_network(handler=None):
    """route every urlopen seam of rdflib to `handler` (default: refuse).  Nothing real is ever opened."""
    import sys as _sys

    h = handler or _Refused()
    for modname, attr in (("rdflib.parser", "_urlopen"), ("rdflib._networking", "_urlopen"), ("rdflib.plugins.stores.sparqlconnector", "urlopen"), ("rdflib.plugins.sparql.evaluate", "urlopen"), ("rdflib.plugins.shared.jsonld.util", "_urlopen")):
        mod = _sys.modules.get(modname)
        if mod is not None and hasattr(mod, attr):
            setattr(mod, attr, h)
    return h


def execute_here(prop, trace, known=None, keep_log=False):
    """Run execute(trace) and classify.  Returns a JSON-able result dict."""
    ctx = Ctx(prop, known, keep_log=keep_log)
    install_seams(int(trace.get("run_seed", 0)))
    res = {"status": "ok"}
    budget_all = trace.get("config", {}).get("budget_all")
    try:
        with ctx.budget(budget_all, "whole-run"):
            prop.execute(trace, ctx)
    except Violation as v:
        res = {"status": "violation", "oracle": v.oracle, "detail": v.detail[:2000]}
    except KnownStop:
        res = {"status": "ok", "ended_by_known": True}
    except StepBudgetExceeded as e:
        sys.settrace(None)
        res = {"status": "violation", "oracle": prop.ID + ".liveness", "detail": str(e)}
    except RecursionError as e:
        # where the stack overflowed decides: inside rdflib it is a liveness violation, inside the harness a harness error
        frames = traceback.extract_tb(e.__traceback__)
        deepest = [f.filename for f in frames[-40:]]
        tail = " <- ".join(f"{os.path.basename(f.filename)}:{f.lineno}:{f.name}" for f in frames[-4:])
        if sum(1 for f in deepest if f.startswith(REPO)) >= len(deepest) // 2:
            res = {"status": "violation", "oracle": prop.ID + ".liveness", "detail": "RecursionError " + str(e)[:200] + " at " + tail}
        else:
            res = {"status": "harness_error", "detail": "RecursionError in the harness: " + tail}
    except Exception as e:  # classify: raised through rdflib code -> violation, else harness error
        tb = e.__traceback__
        text = "".join(traceback.format_exception(type(e), e, tb))[-3000:]
        if _frames_in_repo(tb):
            res = {"status": "violation", "oracle": prop.ID + ".unexpected-exception", "detail": f"{type(e).__name__}: {e}\n{text}"[:3000]}
        else:
            res = {"status": "harness_error", "detail": text}
    res["digest"] = ctx.digest()
    res["seq"] = ctx.seq
    res["checks"] = ctx.checks
    res["probes"] = ctx.probes
    res["opkinds"] = ctx.opkinds
    res["faults"] = ctx.faults
    res["states"] = sorted(ctx.states)
    res["kgrams"] = sorted(ctx.kgrams)
    res["known_hits"] = ctx.known_hits
    res["max_steps"] = ctx.max_steps
    if keep_log:
        res["events"] = ctx.events
    return res


# --------------------------------------------------------------------------
# forked execution: every run starts from the same pristine module state


def run_forked(fn, wall_limit=120.0):
    """Execute fn() in a forked child; return its JSON-able result.
    A wall-clock kill is reported as {'status': 'wall_timeout'} - never pass, never violation."""
    r, w = os.pipe()
    pid = os.fork()
    if pid == 0:
        code = 0
        try:
            os.close(r)
            try:
                out = fn()
            except BaseException as e:  # noqa
                out = {"status": "harness_error", "detail": "".join(traceback.format_exception(type(e), e, e.__traceback__))[-3000:]}
            data = json.dumps(out).encode("utf-8")
            with os.fdopen(w, "wb") as f:
                f.write(data)
        except BaseException:
            code = 3
        finally:
            os._exit(code)
    os.close(w)
    chunks = []
    deadline = time.monotonic() + wall_limit
    timed_out = False
    while True:
        left = deadline - time.monotonic()
        if left <= 0:
            timed_out = True
            break
        rl, _, _ = select.select([r], [], [], min(left, 1.0))
        if rl:
            b = os.read(r, 1 << 16)
            if not b:
                break
            chunks.append(b)
    os.close(r)
    if timed_out:
        try:
            os.kill(pid, signal.SIGKILL)
        except ProcessLookupError:
            pass
        os.waitpid(pid, 0)
        return {"status": "wall_timeout"}
    _, st = os.waitpid(pid, 0)
    raw = b"".join(chunks)
    if not raw:
        return {"status": "harness_error", "detail": f"child died without result, wait status {st}"}
    try:
        return json.loads(raw.decode("utf-8"))
    except Exception as e:
        return {"status": "harness_error", "detail": f"bad child output: {e}"}


def trace_digest(trace) -> str:
    return hashlib.sha256(json.dumps(trace, sort_keys=True).encode("utf-8")).hexdigest()[:16]


def load_known():
    p = os.path.join(VERIF_DIR, "known_findings.json")
    if not os.path.exists(p):
        return []
    with open(p) as f:
        return json.load(f).get("findings", [])
