"""Independent seeded spellers of a dataset in N-Triples, N-Quads, Turtle, TriG, RDF/XML, TriX, JSON-LD, HexTuples.

A dataset is a list of quads [s, p, o, g] of term specs (sim.terms); g is None for the default graph.
Blank nodes are ["b", label]; the label is what the document spells (`_:label`, rdf:nodeID, ...).
`style` is a random.Random-like object or None (None = one plain spelling).  Nothing here uses rdflib.
"""
from __future__ import annotations

import json
import re

XSD = "http://www.w3.org/2001/XMLSchema#"
RDF = "http://www.w3.org/1999/02/22-rdf-syntax-ns#"


class _Plain:
    """style source that always takes the first alternative"""

    def random(self):
        return 0.99

    def choice(self, seq):
        return seq[0]

    def randint(self, a, b):
        return a

    def shuffle(self, x):
        pass


def _st(style):
    return style if style is not None else _Plain()


# ---------------------------------------------------------------- N-Triples / N-Quads


def _nt_string(s, st):
    out = []
    for ch in s:
        o = ord(ch)
        # (every character may also be spelled as a numeric escape, the backslash and the quote included)
        if ch == "\\":
            out.append(st.choice(["\\\\", "\\\\", "\\u005C", "\\U0000005C"]))
        elif ch == '"':
            out.append(st.choice(['\\"', '\\"', "\\u0022"]))
        elif ch == "\n":
            out.append(st.choice(["\\n", "\\n", "\\u000A"]))
        elif ch == "\r":
            out.append(st.choice(["\\r", "\\r", "\\u000D"]))
        elif ch == "\t":
            out.append(st.choice(["\\t", "\t", "\\u0009"]))
        elif o < 0x20 or o == 0x7F:
            out.append("\\u%04X" % o)
        elif o > 0x7E:
            k = st.choice(["raw", "raw", "esc"])
            if k == "raw":
                out.append(ch)
            elif o > 0xFFFF:
                out.append("\\U%08X" % o)
            else:
                out.append(st.choice(["\\u%04X", "\\u%04x"]) % o)
        else:
            out.append(ch if st.random() > 0.03 else "\\u%04X" % o)
    return "".join(out)


def _nt_iri(iri, st):
    out = []
    for ch in iri:
        o = ord(ch)
        if o > 0x7E and st.random() < 0.3:
            out.append("\\U%08X" % o if o > 0xFFFF else "\\u%04X" % o)
        else:
            out.append(ch)
    return "<" + "".join(out) + ">"


def nt_term(t, st):
    if t[0] == "u":
        return _nt_iri(t[1], st)
    if t[0] == "b":
        return "_:" + t[1]
    lex, lang, dt = t[1], (t[2] if len(t) > 2 else None), (t[3] if len(t) > 3 else None)
    s = '"' + _nt_string(lex, st) + '"'
    if lang:
        return s + "@" + lang
    if dt:
        return s + "^^" + _nt_iri(dt, st)
    if st.random() < 0.15:
        return s + "^^<" + XSD + "string>"  # RDF 1.1: simple literal == xsd:string
    return s


def write_nt(quads, style=None, quadformat=False):
    st = _st(style)
    lines = []
    eol = st.choice(["\n", "\n", "\r\n", "\r"])
    for s, p, o, g in quads:
        if g is not None and not quadformat:
            raise ValueError("named graph in N-Triples")
        ws = st.choice([" ", " ", "\t", "  "])
        parts = [nt_term(s, st), nt_term(p, st), nt_term(o, st)]
        if g is not None:
            parts.append(nt_term(g, st))
        if st.random() < 0.15:
            # no white space at all where a term ends in '>' or '"' (the delimiter says where it ends)
            body = ""
            for j, part in enumerate(parts):
                body += part + ("" if part[-1] in '>"' or j == len(parts) - 1 else ws)
            body = body if body.endswith(ws) or parts[-1][-1] in '>"' else body
        else:
            body = ws.join(parts)
        line = st.choice(["", "", " ", "\t"]) + body + st.choice([" .", " .", ".", "\t."])
        if st.random() < 0.15:
            line += " # comment " + st.choice(["", "<x> \"y\" ."])
        lines.append(line)
        if st.random() < 0.1:
            lines.append(st.choice(["", "# a comment line", "   "]))
    doc = eol.join(lines)
    if lines and st.random() < 0.8:
        doc += eol
    return doc


def write_nquads(quads, style=None):
    return write_nt(quads, style, quadformat=True)


# ---------------------------------------------------------------- Turtle / TriG

_PN_ESC = set("_~.-!$&'()*+,;=/?#@%")


def _pn_local(local, st):
    """a legal PN_LOCAL spelling of `local` (Turtle 1.1 / TriG grammar), or None: reserved characters as \\c, a leading '-' or '.' and a
    trailing '.' always escaped, ':' and inner '.' and '-' as they are or escaped"""
    out = []
    n = len(local)
    for k, c in enumerate(local):
        if c in _PN_OK:
            out.append("\\_" if c == "_" and st.random() < 0.1 else c)
        elif c == ":":
            out.append(c)
        elif c == "-":
            out.append("\\-" if k == 0 or st.random() < 0.3 else c)
        elif c == ".":
            out.append("\\." if k in (0, n - 1) or st.random() < 0.3 else c)
        elif c == "%" and k + 2 < n and all(h in "0123456789abcdefABCDEF" for h in local[k + 1 : k + 3]) and st.random() < 0.5:
            out.append(c)  # PERCENT: the three characters stand for themselves
        elif c in _PN_ESC:
            out.append("\\" + c)
        elif c.isalpha() and 0xC0 <= ord(c) <= 0x2FF and ord(c) not in (0xD7, 0xF7):
            out.append(c)
        else:
            return None
    return "".join(out)


_PN_OK = set("abcdefghijklmnopqrstuvwxyzABCDEFGHIJKLMNOPQRSTUVWXYZ0123456789_")


def _ttl_string(lex, st, n3=False):
    has_nl = "\n" in lex or "\r" in lex
    forms = ['"""', "'''"] if has_nl and st.random() < 0.7 else ['"', "'", '"""', "'''"]
    if n3:
        forms = [f for f in forms if f[0] == '"']  # single-quoted strings are Turtle, not N3
    q = st.choice(forms)
    out = []
    for ch in lex:
        o = ord(ch)
        if ch == "\\":
            out.append("\\\\")
        elif ch == q[0]:
            out.append("\\" + ch)
        elif ch == "\n":
            out.append("\n" if len(q) == 3 and st.random() < 0.7 else "\\n")
        elif ch == "\r":
            out.append("\r" if len(q) == 3 and st.random() < 0.5 else "\\r")  # a raw CR is legal inside a long string
        elif ch == "\t":
            out.append(st.choice(["\\t", "\t"]))
        elif ch == "\b":
            out.append("\\b")
        elif ch == "\f":
            out.append("\\f")
        elif o < 0x20 or o == 0x7F:
            out.append("\\u%04X" % o)
        elif o > 0x7E and st.random() < 0.3:
            out.append("\\U%08X" % o if o > 0xFFFF else "\\u%04X" % o)
        else:
            out.append(ch)
    return q + "".join(out) + q


def find_lists(triples, all_quads):
    """well-formed rdf:Lists inside `triples` (one graph) that may be written with the list abbreviation: head -> (members, cells).
    A cell is a blank node with exactly one rdf:first and one rdf:rest and nothing else as subject, referenced exactly once in the
    whole document (by the statement that has the list as object, or by the previous cell)."""
    FIRST, REST, NIL = RDF + "first", RDF + "rest", RDF + "nil"
    by_s = {}
    for s_, p_, o_ in triples:
        by_s.setdefault(json.dumps(s_), []).append((p_, o_))
    refs = {}
    for q in all_quads:
        for pos, t in enumerate(q):
            if t is not None and t[0] == "b" and pos != 0:
                refs[t[1]] = refs.get(t[1], 0) + 1
    subj_occ = {}
    for q in all_quads:
        if q[0][0] == "b":
            subj_occ[q[0][1]] = subj_occ.get(q[0][1], 0) + 1

    def cell(b):
        po = by_s.get(json.dumps(b), [])
        if b[0] != "b" or len(po) != 2 or subj_occ.get(b[1]) != 2 or refs.get(b[1]) != 1:
            return None
        f = [o for p, o in po if p[1] == FIRST]
        r = [o for p, o in po if p[1] == REST]
        return (f[0], r[0]) if len(f) == 1 and len(r) == 1 else None

    rest_targets = {json.dumps(o) for po in by_s.values() for p, o in po if p[1] == REST}
    out = {}
    for k in by_s:
        b = json.loads(k)
        if b[0] != "b" or k in rest_targets or cell(b) is None:
            continue
        members, cells, cur, ok = [], [], b, True
        while True:
            c = cell(cur)
            if c is None or cur[1] in {x[1] for x in cells}:
                ok = False
                break
            members.append(c[0])
            cells.append(cur)
            if c[1] == ["u", NIL]:
                break
            cur = c[1]
        if ok:
            out[b[1]] = (members, cells)
    return out


class _Ttl:
    def __init__(self, st, quads, trig, n3=False, ext_base=None):
        self.st = st
        self.trig = trig
        self.n3 = n3
        self.prefixes = {}  # ns -> prefix
        self.base = None
        self.ext_base = ext_base  # a base the caller of parse() supplies (publicID): the document does not declare it
        self.all_quads = quads
        # blank nodes that can be written without a label: used once, as an object only ([]), or as the subject of statements
        # of one graph only and nowhere else ([] p o ; ...)
        occ = {}
        for q in quads:
            for pos, t in enumerate(q):
                if t is not None and t[0] == "b":
                    occ.setdefault(t[1], []).append((pos, json.dumps(q[3])))
        self.anon_obj = {b for b, o in occ.items() if len(o) == 1 and o[0][0] == 2}
        self.anon_subj = {b for b, o in occ.items() if all(pos == 0 for pos, _ in o) and len({gk for _, gk in o}) == 1}
        self.occ_count = {b: len(o) for b, o in occ.items()}
        self.occ_all = occ
        self.use_anon = st.random() < 0.5
        self.use_nest = st.random() < 0.5
        nss = []
        for q in quads:
            for t in q:
                if t is not None and t[0] == "u":
                    for sep in ("#", "/"):
                        i = t[1].rfind(sep)
                        if i > 8:
                            nss.append(t[1][: i + 1])
                            break
                if t is not None and t[0] == "l" and len(t) > 3 and t[3]:
                    nss.append(XSD)
        names = ["ex", "", "a", "p1", "x-y", "rdfs"]
        if st.random() < 0.3:
            # prefix labels that look like keywords of the syntax (they are ordinary labels: a colon follows)
            names = st.choice([["base", "prefix", "graph"], ["prefix", "Base", "a"], ["graph", "PREFIX", "base"]]) + names
            names = list(dict.fromkeys(names))  # (each label once: a label declared twice would stand for the later namespace)
        for ns in sorted(set(nss)):
            if st.random() < 0.7 and len(self.prefixes) < len(names):
                self.prefixes[ns] = names[len(self.prefixes)]
        cand = sorted(set(n for n in nss if n.endswith("/") and n not in (XSD,)))
        self.base_cands = cand
        if cand and st.random() < 0.4:
            self.base = st.choice(cand)
            if st.random() < 0.3:
                # a base that is just scheme and authority, or has a file name after the last slash: same resolution of the
                # references below (RFC 3986 5.2), more work for the resolver
                k = self.base.find("/", 8)
                self.base_spelled = st.choice([self.base[:k] if k > 0 and self.base.count("/") == 3 else self.base + "doc.ttl", self.base + "doc.ttl", self.base + "index?x=1#top"])
        if ext_base:
            self.base, self.base_cands = ext_base, []

    base_spelled = None

    def header(self):
        st = self.st
        lines = []
        if self.base and not self.ext_base:
            lines.append((st.choice(["@base <%s> .", "BASE <%s>", "base <%s>"]) if not self.n3 else "@base <%s> .") % (self.base_spelled or self.base))
        for ns, p in self.prefixes.items():
            lines.append((st.choice(["@prefix %s: <%s> .", "PREFIX %s: <%s>", "prefix %s: <%s>", "@prefix  %s:\t<%s>."]) if not self.n3 else "@prefix %s: <%s> .") % (p, ns))
        return lines

    def iri(self, iri, predicate=False):
        st = self.st
        if predicate and iri == RDF + "type" and st.random() < 0.5:
            return "a"
        for ns, p in self.prefixes.items():
            if iri.startswith(ns):
                local = iri[len(ns) :]
                if local and set(local) <= _PN_OK and st.random() < 0.8:
                    return p + ":" + local
                if local and not self.n3 and st.random() < 0.8:
                    spelled = _pn_local(local, st)
                    if spelled is not None:
                        return p + ":" + spelled
                if not local and st.random() < 0.5:
                    return p + ":"
        if self.base and iri.startswith(self.base) and st.random() < 0.6 and not (self.base_spelled and iri[len(self.base) : len(self.base) + 1] in ("#", "?")):
            # (a reference that is only a fragment or a query keeps the last segment of the base as it is spelled)
            return "<" + self.dots(iri[len(self.base) :]) + ">"
        if self.base and self.base.count("/") >= 4 and self.base.endswith("/") and st.random() < 0.4:
            # a reference that climbs out of the base's directory: ../x (also up to the root directory)
            parent = self.base[: self.base.rstrip("/").rfind("/") + 1]
            if iri.startswith(parent) and not iri.startswith(self.base) and len(iri) > len(parent):
                return "<" + self.dots("../" + iri[len(parent) :]) + ">"
        if self.base and st.random() < 0.25:
            # absolute-path and network-path references (resolved against scheme / authority of the base)
            k = self.base.find("/", 8)
            origin = self.base[:k] if k > 0 else self.base
            if iri.startswith(origin + "/") and "//" not in iri[len(origin) :]:
                return "<" + (self.dots(iri[len(origin) :]) if st.random() < 0.7 else iri[iri.find("//") :]) + ">"
        return _nt_iri(iri, st)

    def dots(self, rel):
        """the same relative reference with segments that change nothing: './', 'x/../', '/./' (RFC 3986 5.2.4 takes them out)"""
        st = self.st
        if not rel or rel[0] in "#?" or st.random() >= 0.2:
            return rel
        if rel[0] == "/":
            return st.choice(["/." + rel, "/x/.." + rel, "/.." + rel])
        if rel.startswith("../"):
            return st.choice(["./" + rel, "../x/../" + rel[3:]])
        return st.choice(["./" + rel, "x/../" + rel, "x/y/../../" + rel, rel.replace("/", "/./", 1) if "/" in rel.split("#")[0].split("?")[0] else "./" + rel])

    def term(self, t, predicate=False, position=None):
        st = self.st
        if t[0] == "u":
            if t[1] == RDF + "nil" and not predicate and st.random() < 0.4:
                return st.choice(["()", "( )"])
            return self.iri(t[1], predicate)
        if t[0] == "b":
            if position == "o" and t[1] in getattr(self, "lists_now", {}):
                return "( " + " ".join(self.term(m, position="o" if m[0] == "b" and m[1] in self.lists_now else None) for m in self.lists_now[t[1]]) + " )" if self.lists_now[t[1]] else "()"
            if position == "o" and t[1] in getattr(self, "nest_now", {}):
                # a blank node property list: the node's own statements inside the brackets
                inner = " ; ".join(self.term(p2, True) + " " + self.term(o2, position="o") for p2, o2 in self.nest_now[t[1]])
                return "[ " + inner + (" ]" if self.n3 else st.choice([" ]", " ; ]", "]"]))
            if self.use_anon and ((position == "o" and t[1] in self.anon_obj) or (position == "s1" and t[1] in self.anon_subj)) and st.random() < 0.7:
                return st.choice(["[]", "[ ]"])
            return "_:" + t[1]
        lex, lang, dt = t[1], (t[2] if len(t) > 2 else None), (t[3] if len(t) > 3 else None)
        if dt == XSD + "integer" and lex.lstrip("+-").isdigit() and st.random() < 0.6:
            return lex
        if dt == XSD + "boolean" and lex in ("true", "false") and st.random() < 0.6:
            return lex
        if dt == XSD + "decimal" and st.random() < 0.6 and _is_decimal(lex):
            return lex
        if dt == XSD + "double" and st.random() < 0.6 and _is_double(lex):
            return lex
        s = _ttl_string(lex, st, self.n3)
        if lang:
            return s + "@" + lang
        if dt:
            return s + "^^" + self.iri(dt)
        if st.random() < 0.1:
            return s + "^^" + self.iri(XSD + "string")
        return s

    def block(self, triples, indent=""):
        """triples: list of (s,p,o) -> statements with ; and , abbreviations"""
        st = self.st
        self.lists_now = {}
        if getattr(self, "all_quads", None) is not None and not self.n3:
            found = find_lists(triples, self.all_quads)
            # (inner lists first: a list may have members that are lists written in place themselves)
            for head, (members, cells) in sorted(found.items(), key=lambda kv: any(m[0] == "b" for m in kv[1][0])):
                here = any(t[2] == ["b", head] for t in triples)  # (the statement that has the list as its object is in this block)
                if here and st.random() < 0.75 and not any(m[0] == "b" and m[1] not in self.lists_now for m in members):
                    self.lists_now[head] = members
                    gone = {c[1] for c in cells}
                    triples = [t for t in triples if not (t[0][0] == "b" and t[0][1] in gone)]
        self.nest_now = {}
        if self.use_nest:
            # blank nodes that are the object of exactly one statement of this block, name no graph, and have all their own
            # statements in this block may be written in place as [ p o ; ... ] (nested to any depth, never in a cycle)
            stmts, parent = {}, {}
            for s, p, o in triples:
                if s[0] == "b":
                    stmts.setdefault(s[1], []).append((p, o))
                if o[0] == "b":
                    parent.setdefault(o[1], []).append(s)
            for b, sts in stmts.items():
                occ = self.occ_all.get(b, [])
                if (
                    sum(1 for pos, _ in occ if pos == 2) == 1
                    and not any(pos == 3 for pos, _ in occ)
                    and len(sts) == sum(1 for pos, _ in occ if pos == 0)
                    and len(parent.get(b, [])) == 1
                    and b not in self.lists_now
                    and not any(p[1] in (RDF + "first", RDF + "rest") for p, _ in sts)
                    and st.random() < 0.6
                ):
                    self.nest_now[b] = sts
            for b in list(self.nest_now):
                cur, seen = b, set()
                while cur is not None and cur in self.nest_now and cur not in seen:
                    seen.add(cur)
                    par = parent[cur][0]
                    cur = par[1] if par[0] == "b" else None
                if cur is not None and cur in seen:
                    del self.nest_now[b]
        by_s = {}
        order = []
        for s, p, o in triples:
            if s[0] == "b" and s[1] in self.nest_now:
                continue
            k = json.dumps(s)
            if k not in by_s:
                by_s[k] = (s, [])
                order.append(k)
            by_s[k][1].append((p, o))
        st.shuffle(order)
        out = []
        for k in order:
            s, pos = by_s[k]
            if indent == "" and not self.n3 and len(self.prefixes) > 1 and st.random() < 0.08:
                # two prefix labels change places in the middle of the document: a label means what its latest declaration says
                items = sorted(self.prefixes.items())
                st.shuffle(items)
                (n1, l1), (n2, l2) = items[:2]
                out.append(st.choice(["@prefix %s: <%s> .", "PREFIX %s: <%s>"]) % (l1, n2))
                out.append(st.choice(["@prefix %s: <%s> .", "PREFIX %s: <%s>"]) % (l2, n1))
                self.prefixes[n1], self.prefixes[n2] = l2, l1
            if indent == "" and self.base and len(self.base_cands) > 1 and st.random() < 0.25:
                # a second base directive in the middle of the document: the same relative text now means another IRI
                new = st.choice([b for b in self.base_cands if b != self.base])
                spelled = new[len(self.base) :] if new.startswith(self.base) and st.random() < 0.5 else new
                out.append((st.choice(["@base <%s> .", "BASE <%s>", "base <%s>"]) if not self.n3 else "@base <%s> .") % spelled)
                self.base, self.base_spelled = new, None
            if st.random() < 0.35:
                for p, o in pos:  # one statement per triple
                    out.append(f"{indent}{self.term(s)} {self.term(p, True)} {self.term(o, position='o')} .")
                continue
            by_p = {}
            porder = []
            for p, o in pos:
                kp = json.dumps(p)
                if kp not in by_p:
                    by_p[kp] = (p, [])
                    porder.append(kp)
                by_p[kp][1].append(o)
            parts = []
            for kp in porder:
                p, os_ = by_p[kp]
                sep = st.choice([", ", " ,\n" + indent + "        ", ","])
                parts.append(self.term(p, True) + " " + sep.join(self.term(o, position="o") for o in os_))
            semi = st.choice([" ;\n" + indent + "    ", "; ", " ; "])
            tail = st.choice([" .", ".", " ;\n" + indent + ".", " ; ."])
            # (without a label only if every statement about the node is in this very statement)
            whole = s[0] == "b" and len(pos) == self.occ_count.get(s[1])
            if whole and self.use_nest and not self.n3 and s[1] in self.anon_subj and st.random() < 0.35:
                # [ p o ; ... ] q r .  - some of the node's statements inside the brackets, the others (or none) after them
                k2 = st.randint(1, len(pos))
                inner = " ; ".join(self.term(p, True) + " " + self.term(o, position="o") for p, o in pos[:k2])
                outer = " ; ".join(self.term(p, True) + " " + self.term(o, position="o") for p, o in pos[k2:])
                out.append(f"{indent}[ {inner} ]" + (" " + outer if outer else "") + " .")
                continue
            out.append(f"{indent}{self.term(s, position='s1' if whole else None)} " + semi.join(parts) + tail)
            if st.random() < 0.15:
                out.append(indent + "# comment . <x> ;")
        return out


def _is_decimal(lex):
    b = lex.lstrip("+-")
    return "." in b and b.replace(".", "", 1).isdigit() and not b.endswith(".")


def _is_double(lex):
    import re

    return re.fullmatch(r"[+-]?(\d+\.\d*[eE][+-]?\d+|\.\d+[eE][+-]?\d+|\d+[eE][+-]?\d+)", lex) is not None


def write_turtle(quads, style=None, ext_base=None):
    st = _st(style)
    if any(g is not None for _, _, _, g in quads):
        raise ValueError("named graph in Turtle")
    w = _Ttl(st, quads, False, ext_base=ext_base)
    lines = w.header() + [""] + w.block([(s, p, o) for s, p, o, _ in quads])
    eol = st.choice(["\n", "\n", "\r\n", "\r"])
    return eol.join(lines) + eol


def write_n3(quads, style=None):
    """Turtle spelling plus (N3 only) a quoted formula { ... } placed between the statements: labels used before and after it
    must still denote the same nodes"""
    st = _st(style)
    if any(g is not None for _, _, _, g in quads):
        raise ValueError("named graph in N3")
    w = _Ttl(st, quads, False, n3=True)
    ts = [(s, p, o) for s, p, o, _ in quads]
    cut = st.randint(0, len(ts)) if style is not None else len(ts) // 2
    formula = ["<http://ex.org/formula-holder> <http://ex.org/says> { <http://ex.org/fa> <http://ex.org/fb> _:inner . _:inner <http://ex.org/fc> \"f\" } ."]
    lines = w.header() + [""]
    # statements one per triple so that the formula really sits between uses of a label
    for s, p, o in ts[:cut]:
        lines.append(f"{w.term(s)} {w.term(p, True)} {w.term(o, position='o')} .")
    if style is None or st.random() < 0.7:
        lines += formula
    for s, p, o in ts[cut:]:
        lines.append(f"{w.term(s)} {w.term(p, True)} {w.term(o, position='o')} .")
    return "\n".join(lines) + "\n"


def write_trig(quads, style=None, ext_base=None):
    st = _st(style)
    w = _Ttl(st, quads, True, ext_base=ext_base)
    lines = w.header() + [""]
    groups = {}
    order = []
    for s, p, o, g in quads:
        k = json.dumps(g)
        if k not in groups:
            groups[k] = (g, [])
            order.append(k)
        groups[k][1].append((s, p, o))
    # a graph may be written in several blocks
    blocks = []
    for k in order:
        g, ts = groups[k]
        if len(ts) > 1 and st.random() < 0.3:
            cut = st.randint(1, len(ts) - 1)
            blocks.append((g, ts[:cut]))
            blocks.append((g, ts[cut:]))
        else:
            blocks.append((g, ts))
    st.shuffle(blocks)
    for g, ts in blocks:
        if g is None:
            if st.random() < 0.6:
                lines += w.block(ts)
            else:
                lines += ["{"] + w.block(ts, "  ") + ["}"]
        else:
            head = st.choice(["%s {", "GRAPH %s {", "graph %s\n{"]) % w.term(g)
            lines += [head] + w.block(ts, "  ") + ["}"]
    eol = st.choice(["\n", "\n", "\r\n", "\r"])
    return eol.join(lines) + eol


# ---------------------------------------------------------------- RDF/XML, TriX (plain spellings, used for label scoping)


def _xml_esc(s, attr=False):
    s = s.replace("&", "&amp;").replace("<", "&lt;").replace(">", "&gt;")
    if attr:
        s = s.replace('"', "&quot;").replace("\n", "&#10;").replace("\t", "&#9;").replace("\r", "&#13;")
    else:
        s = s.replace("\r", "&#13;")
    return s


def write_rdfxml(quads, style=None, ext_base=None):
    def ref(iri):
        # (ext_base: the caller of parse() supplies the base, the document writes references relative to it and declares nothing)
        return iri[len(ext_base) :] if ext_base and iri.startswith(ext_base) and len(iri) > len(ext_base) else iri

    # an ambient language on the root element (styled documents only): literals in that language inherit it, plain literals
    # switch it off with xml:lang="", typed literals are unaffected by it
    amb = _st(style).choice([None, None, "en", "de"]) if style is not None else None
    out = ['<?xml version="1.0" encoding="utf-8"?>', '<rdf:RDF xmlns:rdf="%s"%s>' % (RDF, f' xml:lang="{amb}"' if amb else "")]
    n = 0
    for s, p, o, g in quads:
        if g is not None:
            raise ValueError("named graph in RDF/XML")
        i = max(p[1].rfind("#"), p[1].rfind("/")) + 1
        ns, local = p[1][:i], p[1][i:]
        about = 'rdf:about="%s"' % _xml_esc(ref(s[1]), True) if s[0] == "u" else 'rdf:nodeID="%s"' % s[1]
        n += 1
        tag = f'p{n}:{local} xmlns:p{n}="{_xml_esc(ns, True)}"'
        if o[0] == "u":
            body = f'<{tag} rdf:resource="{_xml_esc(ref(o[1]), True)}"/>'
        elif o[0] == "b":
            body = f'<{tag} rdf:nodeID="{o[1]}"/>'
        else:
            lang = o[2] if len(o) > 2 else None
            dt = o[3] if len(o) > 3 else None
            if amb and not dt:
                la = "" if lang == amb and _st(style).random() < 0.7 else f' xml:lang="{lang or ""}"'
            else:
                la = f' xml:lang="{lang}"' if lang else ""
            attrs = la + (f' rdf:datatype="{_xml_esc(dt, True)}"' if dt else "")
            body = f"<{tag}{attrs}>{_xml_esc(o[1])}</p{n}:{local}>"
        base = ""
        if style is not None and not ext_base and _st(style).random() < 0.5:
            # an xml:base that changes from element to element: absolute IRIs and rdf:nodeID are unaffected by it
            base = ' xml:base="http://base%d.example/dir/"' % _st(style).randint(1, 3)
        out.append(f"  <rdf:Description{base} {about}>{body}</rdf:Description>")
    out.append("</rdf:RDF>")
    return "\n".join(out) + "\n"


_NCNAME = re.compile(r"^[A-Za-z_À-ÖØ-öø-˿][\w.\-·]*$")


def write_rdfxml_rich(quads, style, ext_base=None):
    """RDF/XML with the syntax's alternative forms: one node element per subject, typed node elements, property attributes,
    rdf:type as attribute, nested node elements, rdf:parseType="Resource" and "Collection", rdf:li, rdf:ID, label-free blank nodes,
    xml:base (declared on the root or on inner elements, inherited) with relative references - also in rdf:datatype -, an inherited
    xml:lang, empty property elements, prefixes declared on the root or where they are used, an optional rdf:RDF root."""
    st = _st(style)
    triples = []
    for s_, p_, o_, g_ in quads:
        if g_ is not None:
            raise ValueError("named graph in RDF/XML")
        triples.append((s_, p_, o_))
    K = json.dumps
    blocks, order = {}, []
    for s_, p_, o_ in triples:
        if K(s_) not in blocks:
            blocks[K(s_)] = []
            order.append(s_)
        blocks[K(s_)].append((p_, o_))
    refs = {}
    for s_, p_, o_ in triples:
        if o_[0] == "b":
            refs[o_[1]] = refs.get(o_[1], 0) + 1
    lists = {h: v for h, v in find_lists(triples, quads).items() if all(m[0] != "l" for m in v[0])}
    emitted, used_ids = set(), set()
    nsdecl = {}  # namespaces declared on the root: ns -> prefix
    # reified statements: an IRI whose statements are exactly rdf:type rdf:Statement, rdf:subject, rdf:predicate, rdf:object of a
    # statement of the document may be written as rdf:ID on that statement's property element
    reifiers = {}
    for k_, props_ in blocks.items():
        subj_ = json.loads(k_)
        d_ = {p_[1]: o_ for p_, o_ in props_}
        if subj_[0] == "u" and len(props_) == 4 and set(d_) == {RDF + "type", RDF + "subject", RDF + "predicate", RDF + "object"} and d_[RDF + "type"] == ["u", RDF + "Statement"]:
            reifiers.setdefault(K([d_[RDF + "subject"], d_[RDF + "predicate"], d_[RDF + "object"]]), []).append(subj_)

    def split(iri):
        i = max(iri.rfind("#"), iri.rfind("/")) + 1
        ns, local = iri[:i], iri[i:]
        if not ns or not _NCNAME.match(local):
            raise ValueError("predicate or class IRI cannot be an XML name: " + iri)
        return ns, local

    counter = [0]

    def qname(iri):
        """(qualified name, xmlns declaration to put on the element or '')"""
        ns, local = split(iri)
        if ns == RDF:
            return "rdf:" + local, ""
        if ns in nsdecl:
            return nsdecl[ns] + ":" + local, ""
        if st.random() < 0.4 and len(nsdecl) < 6:
            nsdecl[ns] = "n%d" % len(nsdecl)
            return nsdecl[ns] + ":" + local, ""
        counter[0] += 1
        return "p%d:%s" % (counter[0], local), ' xmlns:p%d="%s"' % (counter[0], _xml_esc(ns, True))

    def ref(iri, eff):
        if not eff:
            return iri
        effdoc = eff.split("#")[0]
        effdir = effdoc[: effdoc.rfind("/") + 1]
        if iri == effdoc and st.random() < 0.7:
            return ""
        if iri.startswith(effdoc + "#") and st.random() < 0.8:
            return iri[len(effdoc) :]
        if iri.startswith(effdir) and len(iri) > len(effdir) and st.random() < 0.8:
            rel = iri[len(effdir) :]
            first = rel.split("/")[0].split("#")[0].split("?")[0]
            if rel[0] not in "#?/" and ":" not in first:
                return rel
        return iri

    def pick_base(eff, iris):
        """maybe a new xml:base for an element: (attribute text, base in force)"""
        if ext_base or st.random() < 0.6:
            return "", eff
        r = st.random()
        cands = [i for i in iris if i.startswith("http://") and i.count("/") >= 3]
        if r < 0.3 or not cands:
            b = "http://base%d.example/dir/" % st.randint(1, 3)
        else:
            i = st.choice(cands)
            b = st.choice([i[: i.rfind("/") + 1], i.split("#")[0], i[: i.rfind("/") + 1] + "doc.rdf"])
        spelled = b
        if eff:
            # (an xml:base may itself be a relative reference - resolved against the base in scope - and its fragment does not count)
            effdir = eff.split("#")[0]
            effdir = effdir[: effdir.rfind("/") + 1]
            if b.startswith(effdir) and len(b) > len(effdir) and ":" not in b[len(effdir) :].split("/")[0] and st.random() < 0.5:
                spelled = b[len(effdir) :]
        if st.random() < 0.2:
            spelled += "#top"
        return ' xml:base="%s"' % _xml_esc(spelled, True), b

    def lit_attrs(o, scope, eff):
        lang = o[2] if len(o) > 2 else None
        dt = o[3] if len(o) > 3 else None
        if dt:
            return ' rdf:datatype="%s"' % _xml_esc(ref(dt, eff), True)
        if lang == scope and st.random() < 0.7:
            return ""
        return ' xml:lang="%s"' % (lang or "")

    def node(subj, eff, scope, ind, nested):
        """the node element for `subj` with all its statements"""
        k = K(subj)
        emitted.add(k)
        props = list(blocks.get(k, []))
        iris = [t[1] for t in [subj] + [o for _, o in props] if t[0] == "u"]
        battr, eff = pick_base(eff, iris)
        lattr = ""
        if st.random() < 0.15:
            scope = st.choice(["en", "fr", ""]) or None
            lattr = ' xml:lang="%s"' % (scope or "")
        name, decl = "rdf:Description", ""
        for i, (p_, o_) in enumerate(props):
            if p_[1] == RDF + "type" and o_[0] == "u" and st.random() < 0.5:
                try:
                    name, decl = qname(o_[1])
                except ValueError:
                    break
                if name.startswith("rdf:") and name[4:] in ("RDF", "ID", "about", "parseType", "resource", "nodeID", "datatype", "li", "Description"):
                    name, decl = "rdf:Description", ""
                    break
                del props[i]
                break
        attrs = decl + battr + lattr
        if subj[0] == "u":
            effdoc = (eff or "").split("#")[0]
            frag = subj[1][len(effdoc) + 1 :] if eff and subj[1].startswith(effdoc + "#") else ""
            if frag and _NCNAME.match(frag) and subj[1] not in used_ids and st.random() < 0.6:
                used_ids.add(subj[1])
                attrs += ' rdf:ID="%s"' % frag
            else:
                attrs += ' rdf:about="%s"' % _xml_esc(ref(subj[1], eff), True)
        elif refs.get(subj[1], 0) > (1 if nested else 0) or st.random() < 0.4:
            attrs += ' rdf:nodeID="%s"' % subj[1]
        # property attributes: plain literals in the language in scope, each property once; rdf:type with an IRI
        seen_attr, rest = set(), []
        for p_, o_ in props:
            plain = o_[0] == "l" and not (len(o_) > 3 and o_[3]) and ((o_[2] if len(o_) > 2 else None) == scope)
            if plain and p_[1] not in seen_attr and not p_[1].startswith(RDF) and st.random() < 0.3:
                qn, d = qname(p_[1])
                if d and d.split("=")[0] in attrs:
                    rest.append((p_, o_))
                    continue
                seen_attr.add(p_[1])
                attrs += d + ' %s="%s"' % (qn, _xml_esc(o_[1], True))
            elif p_[1] == RDF + "type" and o_[0] == "u" and RDF + "type" not in seen_attr and st.random() < 0.3:
                seen_attr.add(RDF + "type")
                attrs += ' rdf:type="%s"' % _xml_esc(ref(o_[1], eff), True)
            else:
                rest.append((p_, o_))
        # rdf:_1 .. rdf:_k, each once, may be written as rdf:li in that order
        nums = sorted(int(p_[1][len(RDF) + 1 :]) for p_, _ in rest if p_[1].startswith(RDF + "_") and p_[1][len(RDF) + 1 :].isdigit())
        as_li = bool(nums) and nums == list(range(1, len(nums) + 1)) and st.random() < 0.6
        if as_li:
            li = sorted([(p_, o_) for p_, o_ in rest if p_[1].startswith(RDF + "_")], key=lambda x: int(x[0][1][len(RDF) + 1 :]))
            others = [(p_, o_) for p_, o_ in rest if not p_[1].startswith(RDF + "_")]
            merged = []
            while li or others:
                if li and (not others or st.random() < 0.5):
                    merged.append(((["u", RDF + "li"]), li.pop(0)[1]))
                else:
                    merged.append(others.pop(0))
            rest = merged
        if not rest:
            return [ind + "<%s%s/>" % (name, attrs)]
        out = [ind + "<%s%s>" % (name, attrs)]
        for p_, o_ in rest:
            out += prop(p_, o_, eff, scope, ind + "  ", subj)
        out.append(ind + "</%s>" % name.split(" ")[0])
        return out

    def prop(p_, o_, eff, scope, ind, subj=None):
        qn, d = qname(p_[1])
        tag = qn + d
        for r_ in reifiers.get(K([subj, p_, o_]), []) if subj is not None and qn != "rdf:li" else []:
            effdoc = (eff or "").split("#")[0]
            frag = r_[1][len(effdoc) + 1 :] if eff and r_[1].startswith(effdoc + "#") else ""
            if frag and _NCNAME.match(frag) and r_[1] not in used_ids and K(r_) not in emitted and st.random() < 0.7:
                used_ids.add(r_[1])
                emitted.add(K(r_))
                tag += ' rdf:ID="%s"' % frag
                break
        if o_[0] in ("u", "b") and st.random() < 0.5:
            # an empty property element with property attributes: the object's own statements (plain literals of one language,
            # rdf:type) are attributes of the property element, which may carry its own xml:lang
            k2 = K(o_)
            props2 = blocks.get(k2)
            if props2 and k2 not in emitted and (o_[0] == "u" or (refs.get(o_[1], 0) == 1 and o_[1] not in lists)):
                lits = [(p2, o2) for p2, o2 in props2 if o2[0] == "l"]
                types = [(p2, o2) for p2, o2 in props2 if p2[1] == RDF + "type" and o2[0] == "u"]
                langs = {(o2[2] if len(o2) > 2 else None) for _, o2 in lits}
                if (
                    len(lits) + len(types) == len(props2)
                    and len(types) <= 1
                    and len(langs) <= 1
                    and len({p2[1] for p2, _ in lits}) == len(lits)
                    and not any((len(o2) > 3 and o2[3]) or p2[1].startswith(RDF) for p2, o2 in lits)
                ):
                    emitted.add(k2)
                    lang2 = next(iter(langs)) if langs else scope
                    a_ = "" if lang2 == scope else ' xml:lang="%s"' % (lang2 or "")
                    if o_[0] == "u":
                        a_ += ' rdf:resource="%s"' % _xml_esc(ref(o_[1], eff), True)
                    elif st.random() < 0.5:
                        a_ += ' rdf:nodeID="%s"' % o_[1]
                    for p2, o2 in types:
                        a_ += ' rdf:type="%s"' % _xml_esc(ref(o2[1], eff), True)
                    for p2, o2 in lits:
                        qn2, d2 = qname(p2[1])
                        a_ += d2 + ' %s="%s"' % (qn2, _xml_esc(o2[1], True))
                    return [ind + "<%s%s/>" % (tag, a_)]
        if o_[0] == "u":
            if o_[1] == RDF + "nil" and st.random() < 0.4:
                return [ind + st.choice(['<%s rdf:parseType="Collection"/>' % tag, '<%s rdf:parseType="Collection"> </%s>' % (tag, qn)])]
            if K(o_) in blocks and K(o_) not in emitted and st.random() < 0.4:
                return [ind + "<%s>" % tag] + node(o_, eff, scope, ind + "  ", True) + [ind + "</%s>" % qn]
            return [ind + '<%s rdf:resource="%s"/>' % (tag, _xml_esc(ref(o_[1], eff), True))]
        if o_[0] == "b":
            if o_[1] in lists and K(o_) not in emitted and st.random() < 0.8:
                members, cells = lists[o_[1]]
                if all(K(c) not in emitted for c in cells):
                    for c in cells:
                        emitted.add(K(c))
                    out = [ind + '<%s rdf:parseType="Collection">' % tag]
                    for m in members:
                        if K(m) in blocks and K(m) not in emitted and (m[0] == "u" or refs.get(m[1], 0) == 1) and st.random() < 0.4:
                            out += node(m, eff, scope, ind + "  ", True)
                        elif m[0] == "u":
                            out.append(ind + '  <rdf:Description rdf:about="%s"/>' % _xml_esc(ref(m[1], eff), True))
                        else:
                            out.append(ind + '  <rdf:Description rdf:nodeID="%s"/>' % m[1])
                    return out + [ind + "</%s>" % qn]
            if K(o_) in blocks and K(o_) not in emitted and refs.get(o_[1], 0) == 1 and o_[1] not in lists and st.random() < 0.6:
                if st.random() < 0.5:
                    emitted.add(K(o_))
                    out = [ind + '<%s rdf:parseType="Resource">' % tag]
                    for p2, o2 in blocks[K(o_)]:
                        out += prop(p2, o2, eff, scope, ind + "  ")
                    return out + [ind + "</%s>" % qn]
                return [ind + "<%s>" % tag] + node(o_, eff, scope, ind + "  ", True) + [ind + "</%s>" % qn]
            if K(o_) not in blocks and refs.get(o_[1], 0) == 1 and st.random() < 0.3:
                # a blank node that is object once and subject never: an empty nested node element, or rdf:parseType="Resource"
                return [ind + st.choice(["<%s><rdf:Description/></%s>" % (tag, qn), '<%s rdf:parseType="Resource"/>' % tag])]
            return [ind + '<%s rdf:nodeID="%s"/>' % (tag, o_[1])]
        if len(o_) > 3 and o_[3] == RDF + "XMLLiteral" and st.random() < 0.7:
            # (the lexical form is the XML content itself; the test vocabulary only has content in no namespace)
            return [ind + '<%s rdf:parseType="Literal">%s</%s>' % (tag, o_[1], qn)]
        la = lit_attrs(o_, scope, eff)
        if o_[1] == "" and st.random() < 0.5:
            return [ind + "<%s%s/>" % (tag, la)]
        return [ind + "<%s%s>%s</%s>" % (tag, la, _xml_esc(o_[1]), qn)]

    amb = st.choice([None, None, "en", "de"])
    all_iris = [t[1] for tr in triples for t in tr if t[0] == "u"]
    rbase, eff = pick_base(ext_base, all_iris)
    body = []
    for subj in order:
        if K(subj) not in emitted:
            body += node(subj, eff, amb, "  ", False)
    decls = "".join(' xmlns:%s="%s"' % (pfx, _xml_esc(ns, True)) for ns, pfx in nsdecl.items())
    head = '<?xml version="1.0" encoding="utf-8"?>'
    tops = [ln for ln in body if ln.startswith("  <") and not ln.startswith("   ") and not ln.startswith("  </")]
    if len(tops) == 1 and not rbase and st.random() < 0.2:
        # a single node element may be the document element (rdf:RDF is optional)
        first = body[0]
        j = len(first) - (2 if first.endswith("/>") else 1)
        body[0] = first[:j] + ' xmlns:rdf="%s"%s%s' % (RDF, decls, f' xml:lang="{amb}"' if amb and " xml:lang=" not in first else "") + first[j:]
        return "\n".join([head] + body) + "\n"
    root = '<rdf:RDF xmlns:rdf="%s"%s%s%s>' % (RDF, decls, rbase, f' xml:lang="{amb}"' if amb else "")
    return "\n".join([head, root] + body + ["</rdf:RDF>"]) + "\n"


def write_trix(quads, style=None):
    def term(t):
        if t[0] == "u":
            return "<uri>%s</uri>" % _xml_esc(t[1])
        if t[0] == "b":
            return "<id>%s</id>" % t[1]
        lang = t[2] if len(t) > 2 else None
        dt = t[3] if len(t) > 3 else None
        if lang:
            return '<plainLiteral xml:lang="%s">%s</plainLiteral>' % (lang, _xml_esc(t[1]))
        if dt:
            return '<typedLiteral datatype="%s">%s</typedLiteral>' % (_xml_esc(dt, True), _xml_esc(t[1]))
        return "<plainLiteral>%s</plainLiteral>" % _xml_esc(t[1])

    groups = {}
    order = []
    for s, p, o, g in quads:
        k = json.dumps(g)
        if k not in groups:
            groups[k] = (g, [])
            order.append(k)
        groups[k][1].append((s, p, o))
    out = ['<?xml version="1.0" encoding="utf-8"?>', '<TriX xmlns="http://www.w3.org/2004/03/trix/trix-1/">']
    for k in order:
        g, ts = groups[k]
        out.append("  <graph>")
        if g is not None:
            out.append("    " + term(g))
        for s, p, o in ts:
            out.append("    <triple>%s%s%s</triple>" % (term(s), term(p), term(o)))
        out.append("  </graph>")
    out.append("</TriX>")
    return "\n".join(out) + "\n"


# ---------------------------------------------------------------- JSON-LD (expanded form), HexTuples


def write_jsonld(quads, style=None, ext_base=None):
    def ident(t):
        if t[0] == "u" and ext_base and t[1].startswith(ext_base) and len(t[1]) > len(ext_base) and ":" not in t[1][len(ext_base) :]:
            return t[1][len(ext_base) :]  # relative to the base the caller of parse() supplies
        return t[1] if t[0] == "u" else "_:" + t[1]

    def tident(t):
        return t[1] if t[0] == "u" else "_:" + t[1]

    def obj(t):
        if t[0] in ("u", "b"):
            return {"@id": ident(t)}
        lang = t[2] if len(t) > 2 else None
        dt = t[3] if len(t) > 3 else None
        d = {"@value": t[1]}
        if lang:
            d["@language"] = lang
        if dt:
            d["@type"] = dt
        return d

    def nodes(ts):
        by = {}
        lists = {}
        if style is not None:
            for head, (members, cells) in sorted(find_lists(ts, quads).items(), key=lambda kv: any(m[0] == "b" for m in kv[1][0])):
                if any(o == ["b", head] for _, _, o in ts) and not any(m[0] == "b" and m[1] not in lists for m in members) and _st(style).random() < 0.8:
                    lists[head] = members
                    gone = {c[1] for c in cells}
                    ts = [t for t in ts if not (t[0][0] == "b" and t[0][1] in gone)]

        def lobj(m):
            # (a member that is a list itself: a list object within the list, JSON-LD 1.1)
            return {"@list": [lobj(x) for x in lists[m[1]]]} if m[0] == "b" and m[1] in lists else obj(m)

        for s, p, o in ts:
            n = by.setdefault(ident(s), {"@id": ident(s)})
            if p[1] == RDF + "type" and o[0] in ("u", "b"):
                n.setdefault("@type", []).append(tident(o))
            elif o == ["u", RDF + "nil"] and style is not None and _st(style).random() < 0.4:
                n.setdefault(p[1], []).append({"@list": []})
            elif o[0] == "b" and o[1] in lists:
                n.setdefault(p[1], []).append({"@list": [lobj(m) for m in lists[o[1]]]})
            else:
                n.setdefault(p[1], []).append(obj(o))
        return list(by.values())

    groups = {}
    order = []
    for s, p, o, g in quads:
        k = json.dumps(g)
        if k not in groups:
            groups[k] = (g, [])
            order.append(k)
        groups[k][1].append((s, p, o))
    top = []
    for k in order:
        g, ts = groups[k]
        if g is None:
            top.extend(nodes(ts))
        else:
            top.append({"@id": ident(g), "@graph": nodes(ts)})
    return json.dumps(top, indent=st_indent(style), ensure_ascii=False) + "\n"


_TERM_OK = re.compile(r"^[A-Za-z][A-Za-z0-9_.\-]*$")


def write_jsonld_compact(quads, style, ext_base=None):
    """JSON-LD with a context: prefixes, @vocab, @base, keyword aliases, a default language, term definitions with type / language
    coercion, @container @list / @set, reverse properties, embedded node objects, native numbers and booleans, terms and keys that
    are ignored (mapped to null / not expandable), the context split into an array.  (the other writer spells the expanded form)"""
    st = _st(style)
    K = json.dumps
    NIL, TYPE = RDF + "nil", RDF + "type"

    def ns_of(iri):
        i = max(iri.rfind("#"), iri.rfind("/")) + 1
        return iri[:i], iri[i:]

    iris = [t[1] for q in quads for t in q if t is not None and t[0] == "u"] + [t[3] for q in quads for t in q[:3] if t[0] == "l" and len(t) > 3 and t[3]]
    nss = sorted({ns_of(i)[0] for i in iris if ns_of(i)[0].count("/") >= 3})
    ctx = {}
    prefixes = {}
    labels = ["ex", "n1", "voc", "x-y", "rdf_", "dc"]
    for ns in nss:
        if st.random() < 0.6 and len(prefixes) < len(labels):
            prefixes[ns] = labels[len(prefixes)]
            ctx[prefixes[ns]] = ns
    vocab = st.choice([ns for ns in nss if ns not in (XSD,)] + [None, None]) if nss else None
    if vocab:
        ctx["@vocab"] = vocab
    base = None
    if ext_base:
        base = ext_base
    elif st.random() < 0.4:
        cands = [ns for ns in nss if ns.endswith("/") and ns != XSD]
        if cands:
            base = st.choice(cands)
            ctx["@base"] = base + st.choice(["", "doc.jsonld", "doc#frag"])
    alias = {}
    for kw, name in (("@id", "id"), ("@type", "type"), ("@value", "value"), ("@language", "lang"), ("@graph", "graph"), ("@list", "list"), ("@reverse", "rev")):
        if st.random() < 0.25:
            alias[kw] = name
            ctx[name] = kw
    A = lambda kw: alias.get(kw, kw)  # noqa: E731
    dlang = st.choice([None, None, "en", "fr"])
    if dlang:
        ctx["@language"] = dlang

    def compact(iri, vocab_ok=False):
        """a spelling of an IRI in a position that is expanded as an IRI (vocab_ok: relative to @vocab, else to @base)"""
        ns, local = ns_of(iri)
        r = st.random()
        if vocab_ok and vocab and ns == vocab and _TERM_OK.match(local) and local not in ctx and r < 0.5:
            return local
        rel = not vocab_ok and base and iri.startswith(base) and len(iri) > len(base) and ":" not in iri[len(base) :]
        if rel and iri[len(base)] in "#?" and ctx.get("@base", base) != base:
            rel = False  # (a reference that is only a fragment or a query keeps the last segment of the declared base)
        if rel and st.random() < 0.5:
            return iri[len(base) :]
        if ns in prefixes and local and not local.startswith("//") and r < 0.8:
            return prefixes[ns] + ":" + local
        if rel and st.random() < 0.6:
            return iri[len(base) :]
        return iri

    def ident(t):
        return "_:" + t[1] if t[0] == "b" else compact(t[1])

    # term definitions for predicates
    terms = {}  # predicate IRI -> list of (term, kind, arg)
    preds = sorted({q[1][1] for q in quads if q[1][1] != TYPE})
    n = 0
    for p_ in preds:
        for kind in ("plain", "id", "dt", "lang", "list", "set", "reverse"):
            if st.random() < 0.35:
                n += 1
                name = "t%d" % n
                d = {"@id": compact(p_, True) if st.random() < 0.5 else p_}
                arg = None
                if kind == "id":
                    d["@type"] = "@id"
                elif kind == "dt":
                    dts = sorted({q[2][3] for q in quads if q[1][1] == p_ and q[2][0] == "l" and len(q[2]) > 3 and q[2][3]})
                    if not dts:
                        continue
                    arg = st.choice(dts)
                    d["@type"] = compact(arg, True) if st.random() < 0.5 else arg
                elif kind == "lang":
                    arg = st.choice(["en", "fr", "en-GB", None])
                    d["@language"] = arg
                elif kind == "list":
                    d["@container"] = "@list"
                elif kind == "set":
                    d["@container"] = st.choice(["@set", ["@set"]])
                elif kind == "reverse":
                    d = {"@reverse": d["@id"]}
                if kind == "plain" and st.random() < 0.5:
                    d = d["@id"]
                elif kind not in ("reverse",) and st.random() < 0.2:
                    d["@context"] = {"unused2": "http://ex.org/unused2"}  # a property-scoped context that changes nothing
                ctx[name] = d
                terms.setdefault(p_, []).append((name, kind, arg))
    junk = None
    if st.random() < 0.2:
        junk = "ignored"
        ctx[junk] = None

    def value(o, kind=None, arg=None, embed=None):
        """the JSON value for object o under a key whose term definition has `kind`"""
        if o[0] in ("u", "b"):
            if kind == "id":
                return ident(o)
            if embed is not None and st.random() < 0.35:
                e = embed(o)
                if e is not None:
                    return e
            return {A("@id"): ident(o)}
        lex, lang, dt = o[1], (o[2] if len(o) > 2 else None), (o[3] if len(o) > 3 else None)
        if kind == "dt" and dt == arg:
            return lex
        if kind == "lang" and not dt and lang == arg:
            return lex
        if kind in ("dt", "lang") or (kind == "id"):
            raise KeyError("value does not fit the coercion")
        if dt == XSD + "integer" and re.match(r"^(0|-?[1-9][0-9]*)$", lex) and st.random() < 0.5:
            return int(lex)
        if dt == XSD + "boolean" and lex in ("true", "false") and st.random() < 0.5:
            return lex == "true"
        if dt:
            return {A("@value"): lex, A("@type"): compact(dt, True) if st.random() < 0.5 else dt}
        if lang:
            if lang == dlang and st.random() < 0.6:
                return lex
            return {A("@value"): lex, A("@language"): lang}
        if not dlang and st.random() < 0.6:
            return lex
        return {A("@value"): lex}

    def fits(o, kind, arg):
        if kind in ("plain", "set", "list"):
            return True
        if kind in ("id", "reverse"):
            return o[0] in ("u", "b")
        lang, dt = (o[2] if len(o) > 2 else None), (o[3] if len(o) > 3 else None)
        if o[0] != "l":
            return False
        return dt == arg if kind == "dt" else (not dt and lang == arg)

    def nodes(ts):
        by_s, order = {}, []
        for s_, p_, o_ in ts:
            if K(s_) not in by_s:
                by_s[K(s_)] = []
                order.append(s_)
            by_s[K(s_)].append((p_, o_))
        lists = {}
        for head, (members, cells) in sorted(find_lists(ts, quads).items(), key=lambda kv: any(m[0] == "b" for m in kv[1][0])):
            if any(o == ["b", head] for _, _, o in ts) and not any(m[0] == "b" and m[1] not in lists for m in members) and st.random() < 0.8:
                lists[head] = members
                for c in cells:
                    by_s.pop(K(c), None)

        def lvalue(m, bare):
            # (a member that is a list itself: a list object - or, under a term with @container @list, just an array)
            if m[0] == "b" and m[1] in lists:
                inner = [lvalue(x, bare) for x in lists[m[1]]]
                return inner if bare else {A("@list"): inner}
            return value(m)

        order = [s_ for s_ in order if K(s_) in by_s]
        # reverse properties: the statement is written in the node of its object
        reverse = {}
        for s_ in order:
            keep = []
            for p_, o_ in by_s[K(s_)]:
                if o_[0] in ("u", "b") and p_[1] != TYPE and not (o_[0] == "b" and o_[1] in lists) and o_ != ["u", NIL] and st.random() < 0.12:
                    reverse.setdefault(K(o_), []).append((p_, s_))
                else:
                    keep.append((p_, o_))
            by_s[K(s_)] = keep
        for k in reverse:
            if k not in by_s:
                by_s[k] = []
                order.append(json.loads(k))
        emitted = set()

        def embed(o):
            if K(o) in by_s and K(o) not in emitted:
                return node(o)
            return None

        def node(s_):
            emitted.add(K(s_))
            n_ = {A("@id"): ident(s_)}
            types = [o_ for p_, o_ in by_s[K(s_)] if p_[1] == TYPE and o_[0] in ("u", "b")]
            if types:
                tv = [("_:" + t[1]) if t[0] == "b" else compact(t[1], True) for t in types]
                n_[A("@type")] = tv[0] if len(tv) == 1 and st.random() < 0.5 else tv
            acc, kinds = {}, {}
            for p_, o_ in by_s[K(s_)]:
                if p_[1] == TYPE and o_[0] in ("u", "b"):
                    continue
                is_list = (o_[0] == "b" and o_[1] in lists) or (o_ == ["u", NIL] and st.random() < 0.5)
                members = lists[o_[1]] if o_[0] == "b" and o_[1] in lists else []
                cands = [t for t in terms.get(p_[1], []) if t[1] != "reverse" and (t[1] in ("list", "plain", "set") if is_list else t[1] != "list" and fits(o_, t[1], t[2]))]
                cands = [t for t in cands if not (t[1] == "list" and t[0] in acc)]  # (two lists cannot share a @container: @list key)
                if cands and st.random() < 0.7:
                    name, kind, arg = st.choice(cands)
                else:
                    name, kind, arg = (compact(p_[1], True), "plain", None)
                if is_list:
                    arr = [lvalue(m, kind == "list" and st.random() < 0.6) for m in members]
                    v = arr if kind == "list" else {A("@list"): arr}
                else:
                    v = value(o_, kind, arg, embed)
                acc.setdefault(name, []).append(v)
                kinds[name] = kind
            for name, vals in acc.items():
                if kinds[name] == "list":
                    n_[name] = vals[0]
                else:
                    n_[name] = vals[0] if len(vals) == 1 and st.random() < 0.6 else vals
            for p_, s2 in reverse.get(K(s_), []):
                rts = [t for t in terms.get(p_[1], []) if t[1] == "reverse"]
                sv = embed(s2) if st.random() < 0.3 else None
                sv = sv if sv is not None else {A("@id"): ident(s2)}
                if rts and st.random() < 0.7:
                    name = rts[0][0]
                    n_[name] = (n_[name] if isinstance(n_.get(name), list) else [n_[name]] if name in n_ else []) + [sv]
                else:
                    r_ = n_.setdefault(A("@reverse"), {})
                    r_.setdefault(compact(p_[1], True), []).append(sv)
            if st.random() < 0.2:
                # a local context that defines one more (unused) term: everything else stays as the enclosing context says
                n_["@context"] = st.choice([{"unused": "http://ex.org/unused"}, [{"unused": {"@id": "http://ex.org/unused", "@type": "@id"}}], {}])
            if junk and st.random() < 0.3:
                n_[junk] = st.choice(["dropped", {"@id": "http://ex.org/dropped"}, 5])
            if not vocab and st.random() < 0.15:
                n_["comment"] = "a key that expands to no IRI is ignored"
            return n_

        out = []
        for s_ in order:
            if K(s_) not in emitted:
                out.append(node(s_))
        return out

    groups, order = {}, []
    for s_, p_, o_, g_ in quads:
        k = K(g_)
        if k not in groups:
            groups[k] = (g_, [])
            order.append(k)
        groups[k][1].append((s_, p_, o_))
    top = []
    for k in order:
        g_, ts = groups[k]
        if g_ is None:
            top.extend(nodes(ts))
        else:
            top.append({A("@id"): ident(g_), A("@graph"): nodes(ts)})
    # the context: one object, or split in two (later entries may use prefixes of earlier ones)
    if st.random() < 0.3 and len(ctx) > 1:
        first = {k: v for k, v in ctx.items() if k.startswith("@") or isinstance(v, str) and k in prefixes.values() or v is None or (isinstance(v, str) and v.startswith("@"))}
        second = {k: v for k, v in ctx.items() if k not in first}
        ctxv = [first, second] if second else first
        if second and st.random() < 0.5:
            # (a later context overrides the default language of an earlier one, also with null)
            first["@language"] = "de"
            second["@language"] = dlang
    else:
        ctxv = ctx
    if len(top) == 1 and A("@graph") not in top[0] and "@context" not in top[0] and st.random() < 0.5:
        doc = dict({"@context": ctxv}, **top[0])
    else:
        doc = {"@context": ctxv, A("@graph"): top}
    return json.dumps(doc, indent=st.choice([None, 1, 2]), ensure_ascii=st.random() < 0.3) + "\n"


def st_indent(style):
    return None if style is None else _st(style).choice([None, 1, 2])


def write_hext(quads, style=None):
    lines = []
    for s, p, o, g in quads:
        def sid(t):
            return t[1] if t[0] == "u" else "_:" + t[1]

        if o[0] == "u":
            val, dt, lang = o[1], "globalId", ""
        elif o[0] == "b":
            val, dt, lang = "_:" + o[1], "localId", ""
        else:
            lang = (o[2] if len(o) > 2 else None) or ""
            dt = (o[3] if len(o) > 3 else None) or (RDF + "langString" if lang else XSD + "string")
            val = o[1]
        lines.append(json.dumps([sid(s), p[1], val, dt, lang, sid(g) if g is not None else ""], ensure_ascii=False))
    return "\n".join(lines) + "\n"


WRITERS = {
    "nt": write_nt,
    "nquads": write_nquads,
    "turtle": write_turtle,
    "n3": write_n3,
    "trig": write_trig,
    "xml": write_rdfxml,
    "trix": write_trix,
    "json-ld": write_jsonld,
    "hext": write_hext,
}
QUAD_FORMATS = {"nquads", "trig", "trix", "json-ld", "hext"}
