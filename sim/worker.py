"""Worker interpreter: started by sim.main with PYTHONHASHSEED fixed; forks one child per run.

subcommands (argv[1]):
  batch  <PID> <tier> <base_seed> <hashseed> <nruns> <slice_k> <slice_n>   -> JSON line per run on stdout
  exec   <tracefile>                                                        -> one JSON result (fresh fork)
  minimise <tracefile> <outfile> <seconds>                                  -> writes minimised trace
"""
from __future__ import annotations

import gc
import json
import os
import sys
import time

sys.path.insert(0, os.path.dirname(os.path.dirname(os.path.abspath(__file__))))

from sim import kernel, rng  # noqa: E402

WALL_PER_RUN = float(os.environ.get("VERIF_WALL_PER_RUN", "120"))
BUDGET_ALL = int(os.environ.get("VERIF_BUDGET_ALL", "30000000"))


def _expect_hashseed(h):
    got = os.environ.get("PYTHONHASHSEED")
    if got != str(h):
        raise kernel.HarnessError(f"PYTHONHASHSEED is {got!r}, expected {h}")


def one_run(prop, tier, seed, known, want_trace, keep_log=False):
    def child():
        trace = prop.generate(seed, tier)
        trace.setdefault("property", prop.ID)
        trace["run_seed"] = seed
        trace["hashseed"] = rng.hashseed_of(seed)
        res = kernel.execute_here(prop, trace, known, keep_log=keep_log)
        res["nops"] = len(trace["ops"])
        res["tdigest"] = kernel.trace_digest(trace)
        res["nontrivial"] = bool(prop.nontrivial(trace, res))
        if want_trace or res["status"] != "ok" or res.get("known_hits"):
            res["trace"] = trace
        return res

    res = kernel.run_forked(child, WALL_PER_RUN)
    if res.get("status") == "wall_timeout":
        # deterministic re-check: same run under the line-event budget
        def child2():
            trace = prop.generate(seed, tier)
            trace.setdefault("property", prop.ID)
            trace["run_seed"] = seed
            trace["hashseed"] = rng.hashseed_of(seed)
            trace["config"]["budget_all"] = BUDGET_ALL
            r = kernel.execute_here(prop, trace, known)
            r["nops"] = len(trace["ops"])
            r["tdigest"] = kernel.trace_digest(trace)
            r["nontrivial"] = False
            r["trace"] = trace
            return r

        res = kernel.run_forked(child2, WALL_PER_RUN * 20)
        if res.get("status") == "ok":
            res = {"status": "harness_error", "detail": "wall timeout, but the run finishes within the line-event budget (slow machine?)"}
        elif res.get("status") == "wall_timeout":
            res = {"status": "harness_error", "detail": "wall timeout even under the step budget"}
    return res


def cmd_batch(argv):
    pid, tier, base, h, nruns, k, n = argv[0], argv[1], int(argv[2]), int(argv[3]), int(argv[4]), int(argv[5]), int(argv[6])
    _expect_hashseed(h)
    kernel.ensure_repo_on_path()
    prop = kernel.load_prop(pid)
    prop.warm()
    known = kernel.load_known()
    gc.collect()
    gc.freeze()
    out = sys.stdout
    j = 0
    keep = int(os.environ.get("VERIF_KEEP_TRACES", "2"))
    kept = 0
    deadline = float(os.environ.get("VERIF_DEADLINE", "0"))
    for i in range(nruns):
        seed = rng.run_seed(base, pid, i)
        if rng.hashseed_of(seed) != h:
            continue
        j += 1
        if (j - 1) % n != k:
            continue
        if deadline and time.time() > deadline:
            out.write(json.dumps({"i": i, "status": "skipped_wall_cap"}) + "\n")
            continue
        res = one_run(prop, tier, seed, known, want_trace=kept < keep)
        kept += 1
        res["i"] = i
        res["seed"] = seed
        out.write(json.dumps(res) + "\n")
        out.flush()


def _exec_trace(prop, trace, known, keep_log=False, wall=None):
    def child():
        return kernel.execute_here(prop, trace, known, keep_log=keep_log)

    return kernel.run_forked(child, wall or WALL_PER_RUN)


def cmd_exec(argv):
    with open(argv[0]) as f:
        trace = json.load(f)
    _expect_hashseed(trace["hashseed"])
    kernel.ensure_repo_on_path()
    prop = kernel.load_prop(trace["property"])
    prop.warm()
    known = kernel.load_known()
    res = _exec_trace(prop, trace, known, keep_log=len(argv) > 1 and argv[1] == "log")
    if res.get("status") == "wall_timeout" and not trace["config"].get("budget_all"):
        trace["config"]["budget_all"] = BUDGET_ALL
        res = _exec_trace(prop, trace, known, wall=WALL_PER_RUN * 20)
    res.pop("states", None)
    res.pop("kgrams", None)
    sys.stdout.write(json.dumps(res) + "\n")


def cmd_gen(argv):
    """gen <PID> <tier> <seed>: print the trace of one run (for debugging / selftests)."""
    pid, tier, seed = argv[0], argv[1], int(argv[2])
    _expect_hashseed(rng.hashseed_of(seed))
    kernel.ensure_repo_on_path()
    prop = kernel.load_prop(pid)
    prop.warm()
    res = one_run(prop, tier, seed, kernel.load_known(), want_trace=True, keep_log=True)
    sys.stdout.write(json.dumps(res) + "\n")


def cmd_minimise(argv):
    from sim import ddmin

    with open(argv[0]) as f:
        trace = json.load(f)
    budget_s = float(argv[2])
    _expect_hashseed(trace["hashseed"])
    kernel.ensure_repo_on_path()
    prop = kernel.load_prop(trace["property"])
    prop.warm()
    known = kernel.load_known()
    oracle = trace["violation"]["oracle"]
    wall = min(WALL_PER_RUN, 30.0) if not trace["config"].get("budget_all") else WALL_PER_RUN * 5

    def fails(cand):
        r = _exec_trace(prop, cand, known, wall=wall)
        return r.get("status") == "violation" and r.get("oracle") == oracle

    best, tests = ddmin.minimise(prop, trace, fails, budget_s)
    r = _exec_trace(prop, best, known, wall=wall)
    best["violation"] = {"oracle": r.get("oracle"), "detail": r.get("detail"), "digest": r.get("digest")}
    best["minimised"] = True
    best["minimise_tests"] = tests
    best["original_len"] = len(trace["ops"])
    with open(argv[1], "w") as f:
        json.dump(best, f, indent=1)


if __name__ == "__main__":
    cmd = sys.argv[1]
    {"batch": cmd_batch, "exec": cmd_exec, "minimise": cmd_minimise, "gen": cmd_gen}[cmd](sys.argv[2:])
