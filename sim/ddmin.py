"""Delta debugging over a concrete, total trace.  Deterministic: no randomness, and
every candidate is executed in a forked child by the caller's `fails`."""
from __future__ import annotations

import copy
import time


def _with_ops(trace, ops):
    t = dict(trace)
    t["ops"] = ops
    return t


def ddmin_ops(trace, fails, deadline, counter):
    ops = list(trace["ops"])
    n = 2
    while len(ops) >= 2 and time.monotonic() < deadline:
        chunk = max(1, len(ops) // n)
        reduced = False
        # try removing each chunk (complement test), from the end first (later ops are usually dispensable)
        starts = list(range(0, len(ops), chunk))
        for st in reversed(starts):
            if time.monotonic() >= deadline:
                break
            cand = ops[:st] + ops[st + chunk :]
            if not cand:
                continue
            counter[0] += 1
            if fails(_with_ops(trace, cand)):
                ops = cand
                n = max(n - 1, 2)
                reduced = True
                break
        if not reduced:
            if chunk == 1:
                break
            n = min(len(ops), n * 2)
    return _with_ops(trace, ops)


def minimise(prop, trace, fails, budget_s):
    deadline = time.monotonic() + budget_s
    counter = [0]
    best = copy.deepcopy(trace)
    best.pop("violation", None)
    changed = True
    rounds = 0
    while changed and time.monotonic() < deadline and rounds < 6:
        rounds += 1
        changed = False
        before = len(best["ops"])
        best = ddmin_ops(best, fails, deadline, counter)
        if len(best["ops"]) < before:
            changed = True
        simp = getattr(prop, "simplify", None)
        if simp is None:
            continue
        # per-operation / vocabulary / configuration simplification: first candidate that still fails wins, repeat
        progress = True
        while progress and time.monotonic() < deadline:
            progress = False
            for cand in simp(best):
                if time.monotonic() >= deadline:
                    break
                counter[0] += 1
                if fails(cand):
                    best = cand
                    progress = True
                    changed = True
                    break
    return best, counter[0]
