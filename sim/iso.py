"""Independent blank-node matcher for small quad sets (rdflib.compare is not trusted here).

Quads are tuples of hashable term keys; a key k is a blank node iff k[0] == 'b'.
"""
from __future__ import annotations


def is_b(k):
    return isinstance(k, tuple) and len(k) >= 1 and k[0] == "b"


def bnodes(quads):
    return {k for q in quads for k in q if is_b(k)}


def _shape(q, fixed):
    return tuple(("B" if (is_b(k) and k not in fixed) else k) for k in q)


def find_embedding(a, b, fixed=frozenset(), onto=False, forbidden_images=frozenset()):
    """Injective map m from the non-fixed bnodes of `a` to bnodes of `b` (not in forbidden_images, fixed ones map to
    themselves) with m(a) a subset of b; with onto=True additionally m(a) == b.  Returns dict or None."""
    a = list(set(a))
    b = set(b)
    if onto and len(a) != len(b):
        return None
    ground_a = [q for q in a if not any(is_b(k) and k not in fixed for k in q)]
    for q in ground_a:
        if q not in b:
            return None
    var_a = [q for q in a if q not in set(ground_a)]
    cands_b = [q for q in b if any(is_b(k) and k not in fixed for k in q)]
    if onto and len(var_a) != len(cands_b):
        return None
    by_shape = {}
    for q in cands_b:
        by_shape.setdefault(_shape(q, fixed), []).append(q)
    # most constrained first
    var_a.sort(key=lambda q: (len(by_shape.get(_shape(q, fixed), ())), repr(q)))
    m = {}
    used_img = set()
    used_q = set()

    def rec(i):
        if i == len(var_a):
            return True
        q = var_a[i]
        for cand in sorted(by_shape.get(_shape(q, fixed), ()), key=repr):
            if cand in used_q:
                continue
            new = []
            ok = True
            for x, y in zip(q, cand):
                if is_b(x) and x not in fixed:
                    if x in m:
                        if m[x] != y:
                            ok = False
                            break
                    else:
                        if not is_b(y) or y in used_img or y in forbidden_images or y in fixed:
                            ok = False
                            break
                        # tentatively bind (also catches the same x twice in one quad)
                        m[x] = y
                        used_img.add(y)
                        new.append(x)
            if ok:
                used_q.add(cand)
                if rec(i + 1):
                    return True
                used_q.discard(cand)
            for x in new:
                used_img.discard(m[x])
                del m[x]
        return False

    # one level of recursion per quad with a blank node: make room for it (a few hundred quads are legitimate input)
    import sys

    limit = sys.getrecursionlimit()
    need = len(var_a) + 500
    if need > limit - 200:
        sys.setrecursionlimit(limit + need)
    try:
        if rec(0):
            return dict(m)
        return None
    finally:
        sys.setrecursionlimit(limit)


def isomorphic(a, b, fixed=frozenset()):
    return find_embedding(a, b, fixed=fixed, onto=True) is not None
