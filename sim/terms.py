"""JSON-able term specs <-> rdflib terms.  Fresh Python objects are built for every call,
so identity can never stand in for equality.

spec:  ["u", iri] | ["b", id] | ["l", lexical, lang|None, datatype|None] | None (wildcard)
"""
from __future__ import annotations

XSD = "http://www.w3.org/2001/XMLSchema#"
EX = "http://ex.org/"


def T(spec):
    from rdflib.term import BNode, Literal, URIRef

    if spec is None:
        return None
    k = spec[0]
    if k == "u":
        return URIRef(str(spec[1]))
    if k == "b":
        return BNode(str(spec[1]))
    if k == "l":
        lang = spec[2] if len(spec) > 2 else None
        dt = spec[3] if len(spec) > 3 else None
        return Literal(str(spec[1]), lang=lang, datatype=URIRef(dt) if dt else None)
    raise ValueError(spec)


def S(term):
    """term -> spec (exact: lexical form, not value)"""
    from rdflib.term import BNode, Literal, URIRef

    if term is None:
        return None
    if isinstance(term, URIRef):
        return ["u", str(term)]
    if isinstance(term, BNode):
        return ["b", str(term)]
    if isinstance(term, Literal):
        return ["l", str(term), term.language, str(term.datatype) if term.datatype is not None else None]
    raise ValueError(repr(term))


def key(term):
    """hashable exact identity of a term, independent of rdflib's __eq__/__hash__"""
    from rdflib.term import BNode, Literal, URIRef

    if term is None:
        return None
    if isinstance(term, Literal):
        return ("l", str(term), (term.language or None) and term.language.lower(), str(term.datatype) if term.datatype is not None else None)
    if isinstance(term, URIRef):
        return ("u", str(term))
    if isinstance(term, BNode):
        return ("b", str(term))
    return ("?", type(term).__name__, str(term))


def skey(spec):
    """hashable identity of a spec, comparable with key(T(spec))"""
    if spec is None:
        return None
    if spec[0] == "l":
        lang = spec[2] if len(spec) > 2 else None
        dt = spec[3] if len(spec) > 3 else None
        return ("l", str(spec[1]), lang.lower() if lang else None, dt or None)
    return (spec[0], str(spec[1]))


def tkey(triple):
    return tuple(key(x) for x in triple)


def tskey(tspec):
    return tuple(skey(x) for x in tspec)


# awkward terms that every vocabulary contains
FALSY_OBJECTS = [
    ["l", "", None, None],
    ["l", "0", None, XSD + "integer"],
    ["l", "false", None, XSD + "boolean"],
    ["l", "", "en", None],
    ["l", "0.0", None, XSD + "double"],
]


def u(n):
    return ["u", EX + n]
