"""Reference SPARQL 1.1 Update transformer over a dataset model {graph key -> set of triple keys}, with a small
bottom-up evaluator for the WHERE fragment the generator produces (BGP, GRAPH, UNION, OPTIONAL(+FILTER), FILTER on
=, !=, bound, BIND of a term, VALUES), and a renderer of the same AST to SPARQL text.  Independent of rdflib.

Terms: spec lists as in sim.terms (["u",iri] | ["b",label] | ["l",lex,lang,dt]) or ["v", name] for a variable.
Keys: tuples as sim.terms.skey.  DEFAULT is the key under which the model keeps the default graph.
"""
from __future__ import annotations

DEFAULT = "<default>"


def skey(spec):
    if spec[0] == "l":
        lang = spec[2] if len(spec) > 2 else None
        dt = spec[3] if len(spec) > 3 else None
        return ("l", str(spec[1]), lang.lower() if lang else None, dt or None)
    return (spec[0], str(spec[1]))


# ----------------------------------------------------------------------------- rendering


EXNS = "http://ex.org/"
_STYLE = {"prefixed": False, "base": False}


def r_term(t):
    if t[0] == "v":
        return "?" + t[1]
    if t[0] == "u":
        if t[1].startswith(EXNS) and t[1][len(EXNS) :].isalnum():
            if _STYLE["prefixed"]:
                return "ex:" + t[1][len(EXNS) :]  # the prefix is NOT declared in the text: it comes from the graph's bindings
            if _STYLE["base"]:
                return "<" + t[1][len(EXNS) :] + ">"  # relative to the BASE declared once, before the first operation
        return "<" + t[1] + ">"
    if t[0] == "b":
        return "_:" + t[1]
    lex = t[1].replace("\\", "\\\\").replace('"', '\\"').replace("\n", "\\n").replace("\r", "\\r")
    s = '"' + lex + '"'
    if len(t) > 2 and t[2]:
        return s + "@" + t[2]
    if len(t) > 3 and t[3]:
        return s + "^^<" + t[3] + ">"
    return s


def r_triples(ts):
    return " ".join(f"{r_term(s)} {r_term(p)} {r_term(o)} ." for s, p, o in ts)


def r_expr(e):
    op = e[0]
    if op in ("=", "!="):
        return f"({r_term(e[1])} {op} {r_term(e[2])})"
    if op == "bound":
        return f"bound(?{e[1]})"
    if op == "!bound":
        return f"(!bound(?{e[1]}))"
    if op == "&&":
        return f"({r_expr(e[1])} && {r_expr(e[2])})"
    raise ValueError(op)


def r_group(p):
    """a sub-pattern as its own group, so that the rendered text means exactly the nesting of the AST (OPTIONAL, FILTER and
    BIND act on the whole group they stand in, VALUES joins with it)"""
    if p["t"] == "bgp":
        return r_triples(p["triples"])
    return "{ " + r_pattern(p) + " }"


def r_pattern(p):
    t = p["t"]
    if t == "bgp":
        return r_triples(p["triples"])
    if t == "graph":
        return f"GRAPH {r_term(p['g'])} {{ {r_pattern(p['p'])} }}"
    if t == "union":
        return f"{{ {r_pattern(p['a'])} }} UNION {{ {r_pattern(p['b'])} }}"
    if t == "optional":
        f = f" FILTER {r_expr(p['filter'])}" if p.get("filter") else ""
        return f"{r_group(p['a'])} OPTIONAL {{ {r_pattern(p['b'])}{f} }}"
    if t == "join":
        return f"{{ {r_pattern(p['a'])} }} {{ {r_pattern(p['b'])} }}"
    if t == "filter":
        return f"{r_group(p['p'])} FILTER {r_expr(p['e'])}"
    if t == "bind":
        return f"{r_group(p['p'])} BIND({r_term(p['e'])} AS ?{p['var']})"
    if t == "values":
        vals = " ".join("UNDEF" if v is None else r_term(v) for v in p["vals"])
        return f"VALUES ?{p['var']} {{ {vals} }} {{ {r_pattern(p['p'])} }}"
    raise ValueError(t)


def r_quads(tpl):
    """tpl: {"triples": [...], "graphs": [[gterm, [triples]], ...]}"""
    s = r_triples(tpl.get("triples", []))
    for g, ts in tpl.get("graphs", []):
        s += f" GRAPH {r_term(g)} {{ {r_triples(ts)} }}"
    return s


def r_graphref(g, allow_kw=True):
    if g == "DEFAULT":
        return "DEFAULT"
    if g in ("NAMED", "ALL"):
        return g
    return "GRAPH " + r_term(g)


def r_op(op):
    k = op["op"]
    if k == "insert-data":
        return f"INSERT DATA {{ {r_quads(op['data'])} }}"
    if k == "delete-data":
        return f"DELETE DATA {{ {r_quads(op['data'])} }}"
    if k == "delete-where":
        return f"DELETE WHERE {{ {r_quads(op['data'])} }}"
    if k == "modify":
        s = ""
        if op.get("with"):
            s += f"WITH {r_term(op['with'])} "
        if op.get("delete") is not None:
            s += f"DELETE {{ {r_quads(op['delete'])} }} "
        if op.get("insert") is not None:
            s += f"INSERT {{ {r_quads(op['insert'])} }} "
        for u in op.get("using", []):
            s += f"USING {r_term(u)} "
        for u in op.get("using_named", []):
            s += f"USING NAMED {r_term(u)} "
        return s + f"WHERE {{ {r_pattern(op['where'])} }}"
    if k in ("clear", "drop"):
        return f"{k.upper()} {'SILENT ' if op.get('silent') else ''}{r_graphref(op['g'])}"
    if k in ("add", "move", "copy"):
        def gd(g):
            return "DEFAULT" if g == "DEFAULT" else r_term(g)

        return f"{k.upper()} {'SILENT ' if op.get('silent') else ''}{gd(op['src'])} TO {gd(op['dst'])}"
    raise ValueError(k)


def r_request(ops, prefixed=False, base=False):
    _STYLE["prefixed"], _STYLE["base"] = prefixed, base
    try:
        text = " ;\n".join(r_op(o) for o in ops)
    finally:
        _STYLE["prefixed"], _STYLE["base"] = False, False
    return (f"BASE <{EXNS}>\n" if base else "") + text


def subst_ns(x, ns):
    """deep copy of an operation AST with every IRI of the ex: namespace moved to `ns` (what the text means when ex: is bound to ns)"""
    if isinstance(x, list):
        if len(x) == 2 and x[0] == "u" and isinstance(x[1], str):
            return ["u", ns + x[1][len(EXNS) :]] if x[1].startswith(EXNS) and x[1][len(EXNS) :].isalnum() else list(x)
        return [subst_ns(y, ns) for y in x]
    if isinstance(x, dict):
        return {k: subst_ns(v, ns) for k, v in x.items()}
    return x


# ----------------------------------------------------------------------------- evaluation


def _compatible(a, b):
    for k, v in a.items():
        if k in b and b[k] != v:
            return False
    return True


def _merge(a, b):
    m = dict(a)
    m.update(b)
    return m


def _val(t, mu):
    if t[0] == "v":
        return mu.get(t[1])
    return skey(t)


def ev_expr(e, mu):
    """returns True/False; errors -> False (filter semantics)"""
    op = e[0]
    if op in ("=", "!="):
        a, b = _val(e[1], mu), _val(e[2], mu)
        if a is None or b is None:
            return False  # unbound: error
        if a[0] == "l" and b[0] == "l" and a != b and (a[2], a[3], b[2], b[3]) != (None, None, None, None):
            return False  # different literals that are not both simple strings: type error either way (not generated)
        return (a == b) if op == "=" else (a != b)
    if op == "bound":
        return mu.get(e[1]) is not None
    if op == "!bound":
        return mu.get(e[1]) is None
    if op == "&&":
        return ev_expr(e[1], mu) and ev_expr(e[2], mu)
    raise ValueError(op)


def ev_bgp(triples, graph):
    sols = [{}]
    for s, p, o in triples:
        new = []
        for mu in sols:
            for t in graph:
                m = dict(mu)
                ok = True
                for pat, val in zip((s, p, o), t):
                    if pat[0] == "v":
                        if pat[1] in m:
                            if m[pat[1]] != val:
                                ok = False
                                break
                        else:
                            m[pat[1]] = val
                    elif skey(pat) != val:
                        ok = False
                        break
                if ok:
                    new.append(m)
        sols = new
    return sols


def ev(p, ds, active):
    """ds: {"default": set, "named": {gkey: set}}; active: the active graph (a set of triples)"""
    t = p["t"]
    if t == "bgp":
        return ev_bgp(p["triples"], active)
    if t == "graph":
        g = p["g"]
        if g[0] != "v":
            return ev(p["p"], ds, ds["named"].get(skey(g), set()))
        out = []
        for name in sorted(ds["named"], key=repr):
            for mu in ev(p["p"], ds, ds["named"][name]):
                if g[1] in mu and mu[g[1]] != name:
                    continue
                m = dict(mu)
                m[g[1]] = name
                out.append(m)
        return out
    if t == "union":
        return ev(p["a"], ds, active) + ev(p["b"], ds, active)
    if t == "join":
        A, B = ev(p["a"], ds, active), ev(p["b"], ds, active)
        return [_merge(a, b) for a in A for b in B if _compatible(a, b)]
    if t == "optional":
        A, B = ev(p["a"], ds, active), ev(p["b"], ds, active)
        out = []
        for a in A:
            ms = [_merge(a, b) for b in B if _compatible(a, b)]
            if p.get("filter"):
                ms = [m for m in ms if ev_expr(p["filter"], m)]
            out.extend(ms if ms else [a])
        return out
    if t == "filter":
        return [mu for mu in ev(p["p"], ds, active) if ev_expr(p["e"], mu)]
    if t == "bind":
        out = []
        for mu in ev(p["p"], ds, active):
            v = _val(p["e"], mu)
            m = dict(mu)
            if v is not None:
                m[p["var"]] = v
            out.append(m)
        return out
    if t == "values":
        rows = [({} if v is None else {p["var"]: skey(v)}) for v in p["vals"]]
        B = ev(p["p"], ds, active)
        return [_merge(a, b) for a in rows for b in B if _compatible(a, b)]
    raise ValueError(t)


# ----------------------------------------------------------------------------- update


class Fresh:
    def __init__(self):
        self.n = 0

    def new(self):
        self.n += 1
        return ("b", f"@new{self.n}")


def _legal(s, p, o):
    return s[0] in ("u", "b") and p[0] == "u"


def _instantiate(tpl, mu, fresh, target_default, bmap=None):
    """yield (graphkey, triple) for one solution; template bnodes are fresh per solution"""
    bmap = {} if bmap is None else bmap

    def inst(t):
        if t[0] == "v":
            return mu.get(t[1])
        if t[0] == "b":
            if t[1] not in bmap:
                bmap[t[1]] = fresh.new()
            return bmap[t[1]]
        return skey(t)

    out = []
    for s, p, o in tpl.get("triples", []):
        tr = (inst(s), inst(p), inst(o))
        if None not in tr and _legal(*tr):
            out.append((target_default, tr))
    for g, ts in tpl.get("graphs", []):
        gk = inst(g)
        for s, p, o in ts:
            tr = (inst(s), inst(p), inst(o))
            # (rdflib stores allow blank-node-named graphs; GRAPH ?g ranges over them, so a template may name them too)
            if gk is not None and gk[0] in ("u", "b") and None not in tr and _legal(*tr):
                out.append((gk, tr))
    return out


def _tpl_to_pattern(tpl):
    p = {"t": "bgp", "triples": tpl.get("triples", [])}
    for g, ts in tpl.get("graphs", []):
        p = {"t": "join", "a": p, "b": {"t": "graph", "g": g, "p": {"t": "bgp", "triples": ts}}}
    return p


def apply_op(model, op, union, fresh, single_graph=False, ignore_using_named=False, default_iri=None):
    """default_iri: key of the IRI under which the handle's default graph is also addressable as a graph of the store
    (e.g. ('u', 'urn:x-rdflib:default') for a Dataset): a graph reference spelling that IRI means the default graph"""
    """model: {gkey or DEFAULT: set}.  Mutates model.  Returns a set of acceptable alternative outcomes only for
    operations where the spec leaves a choice (list of (description, model) alternatives) - else None."""
    named = {k: v for k, v in model.items() if k != DEFAULT}
    D = model.setdefault(DEFAULT, set())

    def dataset(default_set):
        return {"default": default_set, "named": named}

    def where_default():
        if union and not single_graph:
            s = set(D)
            for v in named.values():
                s |= v
            return s
        return set(D)

    k = op["op"]
    if k == "insert-data":
        for gk, tr in _instantiate(op["data"], {}, fresh, DEFAULT, bmap={}):
            model.setdefault(gk, set()).add(tr)
    elif k == "delete-data":
        for gk, tr in _instantiate(op["data"], {}, fresh, DEFAULT):
            model.get(gk, set()).discard(tr)
    elif k == "delete-where":
        sols = ev(_tpl_to_pattern(op["data"]), dataset(where_default()), where_default())
        dels = [x for mu in sols for x in _instantiate(op["data"], mu, fresh, DEFAULT)]
        for gk, tr in dels:
            model.get(gk, set()).discard(tr)
    elif k == "modify":
        w = skey(op["with"]) if op.get("with") else None
        tdef = w if w is not None else DEFAULT
        if ignore_using_named and not op.get("using"):
            # (alternative semantics used only to recognise a listed known finding: USING NAMED has no effect)
            # rdflib: any USING/USING NAMED clause switches WITH off for the pattern
            active = where_default() if op.get("using_named") else (set(model.get(w, set())) if w is not None else where_default())
            ds = dataset(active)
        elif op.get("using") or op.get("using_named"):
            dflt = set()
            for u in op.get("using", []):
                dflt |= model.get(skey(u), set())
            nm = {skey(u): model.get(skey(u), set()) for u in op.get("using_named", [])}
            if ignore_using_named:
                nm = named
            ds = {"default": dflt, "named": nm}
            active = dflt
        elif w is not None:
            active = set(model.get(w, set()))
            ds = dataset(active)
        else:
            active = where_default()
            ds = dataset(active)
        sols = ev(op["where"], ds, active)
        dels, ins = [], []
        for mu in sols:
            if op.get("delete") is not None:
                dels += _instantiate(op["delete"], mu, fresh, tdef)
            if op.get("insert") is not None:
                ins += _instantiate(op["insert"], mu, fresh, tdef, bmap={})
        for gk, tr in dels:
            model.get(gk, set()).discard(tr)
        for gk, tr in ins:
            model.setdefault(gk, set()).add(tr)
    elif k in ("clear", "drop"):
        g = op["g"]
        if g not in ("DEFAULT", "NAMED", "ALL") and default_iri is not None and skey(g) == default_iri:
            g = "DEFAULT"
        if g == "DEFAULT" or (single_graph and g == "ALL"):
            model[DEFAULT] = set()
        elif single_graph and g == "NAMED":
            pass  # a single graph is a graph store with a default graph only
        elif g == "NAMED":
            for n in list(named):
                model[n] = set()
        elif g == "ALL":
            for n in list(model):
                model[n] = set()
        else:
            model[skey(g)] = set()
    elif k in ("add", "move", "copy"):
        src = DEFAULT if op["src"] == "DEFAULT" else skey(op["src"])
        dst = DEFAULT if op["dst"] == "DEFAULT" else skey(op["dst"])
        if default_iri is not None:
            src = DEFAULT if src == default_iri else src
            dst = DEFAULT if dst == default_iri else dst
        if src == dst:
            return None
        data = set(model.get(src, set()))
        if k in ("move", "copy"):
            model[dst] = set()
        model.setdefault(dst, set()).update(data)
        if k == "move":
            model[src] = set()
    else:
        raise ValueError(k)
    return None


def quads_of(model):
    return {t + (g,) for g, ts in model.items() for t in ts}
