"""Proving the machinery: determinism and sensitivity self-tests.

./check selftest-determinism [Cxx ...] [--n 200]
    every run executed (i) in a 16-worker batch, (ii) in a batch with another worker count and slicing,
    (iii) alone in a fresh interpreter (generate+execute), (iv) through the replay path (execute(trace file));
    the SHA-256 of the event logs must agree in all four.
./check selftest-sensitivity [name ...]
    for every mutants/<name>/ and seeded/<name>/ (patch.diff + meta.json{property}): copy /repo/rdflib to a scratch
    directory outside /repo and /verif, apply the patch, run the property's quick tier there, demand a VIOLATION
    whose replay reproduces; scratch removed afterwards.
"""
from __future__ import annotations

import glob
import json
import os
import shutil
import subprocess
import sys
import tempfile

from . import kernel, main as M, rng


def determinism(pids, n, tier="quick"):
    bad = 0
    for pid in pids:
        base = int(os.environ.get("VERIF_SEED", "0")) + 7919
        a, ea = M.run_batch(pid, tier, base, n, 16, 1, 0)
        b, eb = M.run_batch(pid, tier, base, n, 5, 2, 0)
        if ea or eb:
            print("HARNESS-ERROR", pid, (ea + eb)[:2])
            bad += 1
            continue
        da = {r["i"]: (r.get("status"), r.get("digest")) for r in a}
        db = {r["i"]: (r.get("status"), r.get("digest")) for r in b}
        mism = [i for i in da if da[i] != db.get(i)]
        # fresh-interpreter and replay-path samples
        fresh = 0
        k = max(4, n // 10)
        for r in a[:: max(1, len(a) // k)]:
            seed = r["seed"]
            h = rng.hashseed_of(seed)
            p = subprocess.run([M.PY, M.WORKER, "gen", pid, tier, str(seed)], env=M._env(h), capture_output=True, text=True)
            if p.returncode != 0:
                print("HARNESS-ERROR gen", pid, seed, p.stderr[-500:])
                bad += 1
                continue
            g = json.loads(p.stdout.strip().splitlines()[-1])
            if (g.get("status"), g.get("digest")) != da[r["i"]]:
                mism.append(("fresh", r["i"]))
            with tempfile.NamedTemporaryFile("w", suffix=".json", delete=False, dir="/var/tmp") as f:
                json.dump(g["trace"], f)
                tf = f.name
            try:
                e = M.worker_exec(tf, h)
            finally:
                os.unlink(tf)
            if (e.get("status"), e.get("digest")) != da[r["i"]]:
                mism.append(("replay", r["i"]))
            fresh += 1
        print(f"determinism {pid}: {len(da)} runs x2 batches (16 workers vs 5 workers x2 slices), {fresh} fresh-interpreter + replay-path samples, mismatches={len(mism)}")
        if mism:
            print("  MISMATCH", mism[:10])
            bad += 1
    return 2 if bad else 0


def scratch_repo():
    d = tempfile.mkdtemp(prefix="verif-scratch-", dir="/var/tmp")
    shutil.copytree(os.path.join(kernel.REPO, "rdflib"), os.path.join(d, "rdflib"), ignore=shutil.ignore_patterns("__pycache__"))
    return d


def sensitivity(names, tier="quick", runs=None):
    dirs = sorted(glob.glob(os.path.join(kernel.VERIF_DIR, "mutants", "*")) + glob.glob(os.path.join(kernel.VERIF_DIR, "seeded", "*")))
    missed = []
    total = 0
    for d in dirs:
        name = os.path.basename(d)
        if names and name not in names:
            continue
        patch = os.path.join(d, "patch.diff")
        meta = os.path.join(d, "meta.json")
        if not (os.path.exists(patch) and os.path.exists(meta)):
            continue
        with open(meta) as f:
            m = json.load(f)
        if m.get("moot_since"):
            # a later fix: commit made this change harmless (its demonstration passes with the change applied)
            print(f"sensitivity {name}: harmless since fix {m['moot_since']} - skipped")
            continue
        props = m.get("detected_by") or [m["property"]]
        if isinstance(props, str):
            props = [props]
        props = [p for p in props if p in kernel.CLAIMED]
        if not props:
            print(f"sensitivity {name}: property {m.get('property')} not claimed - skipped")
            continue
        total += 1
        sc = scratch_repo()
        try:
            p = subprocess.run(["git", "apply", "--unsafe-paths", "--directory", sc, patch], capture_output=True, text=True, cwd="/")
            if p.returncode != 0:
                p = subprocess.run(["patch", "-p1", "-d", sc, "-i", patch], capture_output=True, text=True)
            if p.returncode != 0:
                print(f"sensitivity {name}: patch does not apply: {p.stderr[-300:]} {p.stdout[-300:]}")
                missed.append(name)
                continue
            caught = False
            for pid in props:
                env = dict(os.environ)
                env["VERIF_REPO"] = sc
                env["VERIF_NO_CORPUS"] = "1"  # the seeded search itself must find it, not the regression corpus
                cmd = [os.path.join(kernel.VERIF_DIR, "check"), pid, "--tier", tier] + (["--runs", str(runs)] if runs else [])
                env["VERIF_EVIDENCE_DIR"] = os.path.join(sc, "evidence")
                r = subprocess.run(cmd, env=env, capture_output=True, text=True)
                v = [l for l in r.stdout.splitlines() if l.startswith("VIOLATION")]
                if r.returncode == 1 and v:
                    print(f"sensitivity {name}: caught by {pid}: {v[0]}")
                    caught = True
                    break
                else:
                    print(f"sensitivity {name}: NOT caught by {pid} (rc={r.returncode}) {r.stdout.strip().splitlines()[-1:]}")
            if not caught:
                missed.append(name)
        finally:
            shutil.rmtree(sc, ignore_errors=True)
    print(f"sensitivity: {total - len(missed)}/{total} caught; missed: {missed}")
    return 1 if missed else 0


def main(cmd, pos, args):
    if cmd == "selftest-determinism":
        pids = [p.upper() for p in pos] or kernel.CLAIMED
        return determinism(pids, int(args.get("n", 200)), args.get("tier", "quick"))
    if cmd == "selftest-sensitivity":
        return sensitivity(pos, args.get("tier", "quick"), args.get("runs"))
    print("unknown selftest")
    return 2
