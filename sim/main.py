"""./check launcher: corpus, seeded batch, minimisation, replay, evidence, exit protocol.

exit 0: property held on everything explored (KNOWN-FINDING lines possible)
exit 1: after `VIOLATION property=<id> replay=<path>`
exit 2: harness error (never confused with either)
"""
from __future__ import annotations

import glob
import json
import os
import shutil
import subprocess
import sys
import threading
import time

from . import kernel, rng

PY = sys.executable
WORKER = os.path.join(kernel.VERIF_DIR, "sim", "worker.py")
REPLAYS = os.path.join(kernel.VERIF_DIR, "replays")
EVID = os.environ.get("VERIF_EVIDENCE_DIR") or os.path.join(kernel.VERIF_DIR, "evidence")
CORPUS = os.path.join(kernel.VERIF_DIR, "corpus")


def _env(h, extra=None):
    e = dict(os.environ)
    e["PYTHONHASHSEED"] = str(h)
    e["PYTHONDONTWRITEBYTECODE"] = "1"
    e["VERIF_REPO"] = kernel.REPO
    if extra:
        e.update(extra)
    return e


def worker_exec(tracefile, h, log=False, timeout=3600):
    args = [PY, WORKER, "exec", tracefile] + (["log"] if log else [])
    p = subprocess.run(args, env=_env(h), capture_output=True, text=True, timeout=timeout)
    if p.returncode != 0 or not p.stdout.strip():
        return {"status": "harness_error", "detail": f"worker exec rc={p.returncode}: {p.stderr[-2000:]}"}
    return json.loads(p.stdout.strip().splitlines()[-1])


def run_batch(pid, tier, base, nruns, workers, split, deadline, on_result=None):
    """Start one interpreter per (hashseed, slice); at most `workers` at a time.  Results are folded as they arrive
    (on_result) so that a thorough batch does not keep every run's coverage data in memory; the returned list holds a
    slim record per run (index, seed, status, digest)."""
    jobs = [(h, k) for k in range(split) for h in range(rng.NHASH)]
    results = []
    errors = []
    lock = threading.Lock()
    sem = threading.Semaphore(workers)

    def job(h, k):
        with sem:
            args = [PY, WORKER, "batch", pid, tier, str(base), str(h), str(nruns), str(k), str(split)]
            p = subprocess.Popen(args, env=_env(h, {"VERIF_DEADLINE": str(deadline)}), stdout=subprocess.PIPE, stderr=subprocess.PIPE, text=True)
            errbuf = []
            t = threading.Thread(target=lambda: errbuf.append(p.stderr.read()))
            t.start()
            for line in p.stdout:
                line = line.strip()
                if not line:
                    continue
                try:
                    r = json.loads(line)
                except Exception:
                    with lock:
                        errors.append(f"worker h={h}: bad line {line[:200]}")
                    continue
                with lock:
                    if on_result is not None:
                        on_result(r)
                    results.append({"i": r.get("i"), "seed": r.get("seed"), "status": r.get("status"), "digest": r.get("digest")})
            p.wait()
            t.join()
            if p.returncode != 0:
                with lock:
                    errors.append(f"worker h={h} k={k} rc={p.returncode}: {''.join(errbuf)[-3000:]}")

    ths = [threading.Thread(target=job, args=j) for j in jobs]
    for t in ths:
        t.start()
    for t in ths:
        t.join()
    results.sort(key=lambda r: r["i"])
    return results, errors


def minimise_and_verify(pid, res, tier, minimise_s):
    """Write replay file for a violating run: minimise, then re-verify in a fresh interpreter."""
    os.makedirs(REPLAYS, exist_ok=True)
    trace = res["trace"]
    trace["format"] = "rdflib-dst-replay-1"
    trace["violation"] = {"oracle": res["oracle"], "detail": res.get("detail"), "digest": res.get("digest")}
    h = trace["hashseed"]
    raw = os.path.join(REPLAYS, f"{pid}-{trace['run_seed']}-raw.json")
    with open(raw, "w") as f:
        json.dump(trace, f, indent=1)
    out = os.path.join(REPLAYS, f"{pid}-{trace['run_seed']}.json")
    p = subprocess.run([PY, WORKER, "minimise", raw, out, str(minimise_s)], env=_env(h), capture_output=True, text=True)
    if p.returncode != 0 or not os.path.exists(out):
        sys.stderr.write(f"minimiser failed rc={p.returncode}: {p.stderr[-1500:]}\n")
        shutil.copy(raw, out)
    with open(out) as f:
        mt = json.load(f)
    r = worker_exec(out, h)
    ok = r.get("status") == "violation" and r.get("oracle") == mt["violation"]["oracle"] and r.get("digest") == mt["violation"]["digest"]
    if not ok:
        # fall back to the unminimised trace; it must reproduce
        r2 = worker_exec(raw, h)
        if r2.get("status") == "violation" and r2.get("oracle") == res["oracle"] and r2.get("digest") == res.get("digest"):
            shutil.copy(raw, out)
            return out, True
        return out, False
    return out, True


def do_replay(pid, path):
    with open(path) as f:
        trace = json.load(f)
    if trace.get("property") != pid:
        print(f"replay file is for {trace.get('property')}, not {pid}")
        return 2
    r = worker_exec(path, trace["hashseed"], log=True)
    want = trace.get("violation") or {}
    print(json.dumps({k: r.get(k) for k in ("status", "oracle", "digest", "seq")}))
    if r.get("status") == "violation":
        for line in r.get("events", [])[-12:]:
            print("  event", line[:300])
        print("detail:", (r.get("detail") or "")[:3000])
        same = r.get("oracle") == want.get("oracle") and r.get("digest") == want.get("digest")
        print("reproduces recorded violation exactly:" if want else "violation:", same if want else r.get("oracle"))
        print(f"VIOLATION property={pid} replay={os.path.abspath(path)}")
        return 1
    if r.get("status") == "harness_error":
        print(r.get("detail"))
        return 2
    print("no violation on this tree")
    return 0


def run_corpus(pid, workers):
    files = sorted(glob.glob(os.path.join(CORPUS, pid, "*.json")))
    out = []
    lock = threading.Lock()
    sem = threading.Semaphore(workers)

    def job(fp):
        with sem:
            with open(fp) as f:
                tr = json.load(f)
            r = worker_exec(fp, tr["hashseed"])
            with lock:
                out.append((fp, tr, r))

    ths = [threading.Thread(target=job, args=(fp,)) for fp in files]
    for t in ths:
        t.start()
    for t in ths:
        t.join()
    out.sort(key=lambda x: x[0])
    return out


def check(pid, tier, args):
    t0 = time.time()
    prop = kernel.load_prop(pid)
    base = int(os.environ.get("VERIF_SEED", "0"))
    tcfg = prop.TIERS[tier]
    nruns = int(args.get("runs") or tcfg["runs"])
    workers = int(args.get("workers") or os.environ.get("VERIF_WORKERS") or os.cpu_count() or 4)
    split = int(args.get("split") or os.environ.get("VERIF_SPLIT") or 1)
    wall_cap = float(os.environ.get("VERIF_WALL_CAP", tcfg.get("wall_cap", 900 if tier == "quick" else 5400)))
    deadline = t0 + wall_cap
    known = kernel.load_known()
    print(f"check {pid} tier={tier} VERIF_SEED={base} runs={nruns} workers={workers} repo={kernel.REPO}", flush=True)

    violations = []  # (replay_path, oracle, reproduced)
    harness = []
    known_hits = {}
    stale = []

    # 1. regression corpus
    corp = [] if os.environ.get("VERIF_NO_CORPUS") else run_corpus(pid, workers)
    for fp, tr, r in corp:
        for k, v in (r.get("known_hits") or {}).items():
            known_hits[k] = known_hits.get(k, 0) + v
        exp = tr.get("expect", "pass")
        if r.get("status") == "violation":
            os.makedirs(REPLAYS, exist_ok=True)
            dst = os.path.join(REPLAYS, f"{pid}-corpus-{os.path.basename(fp)}")
            tr2 = dict(tr)
            tr2["violation"] = {"oracle": r["oracle"], "detail": r.get("detail"), "digest": r.get("digest")}
            with open(dst, "w") as f:
                json.dump(tr2, f, indent=1)
            violations.append((dst, r["oracle"], True, r.get("detail", "")))
        elif r.get("status") != "ok":
            harness.append(f"corpus {fp}: {r.get('status')} {r.get('detail', '')[:1500]}")
        elif exp.startswith("known:") and exp[6:] not in (r.get("known_hits") or {}):
            stale.append((exp[6:], fp))

    # 2. seeded batch (results folded as they arrive)
    agg_probes, agg_ops, agg_faults, max_steps = {}, {}, {}, {}
    states, kgrams, tdig_nontrivial, tdig_all = set(), set(), set(), set()
    samples = []
    counters = {"nops": 0, "checks": 0, "done": 0, "skipped": 0}
    bad = []

    def fold(r):
        st = r.get("status")
        if st == "skipped_wall_cap":
            counters["skipped"] += 1
            return
        counters["done"] += 1
        if st == "harness_error":
            harness.append(f"run i={r.get('i')} seed={r.get('seed')}: {r.get('detail', '')[:1500]}")
            return
        for src, dst in ((r.get("probes"), agg_probes), (r.get("opkinds"), agg_ops), (r.get("faults"), agg_faults), (r.get("known_hits"), known_hits)):
            for k, v in (src or {}).items():
                dst[k] = dst.get(k, 0) + v
        for k, v in (r.get("max_steps") or {}).items():
            max_steps[k] = max(max_steps.get(k, 0), v)
        states.update(r.get("states") or ())
        kgrams.update(r.get("kgrams") or ())
        counters["nops"] += r.get("nops", 0)
        counters["checks"] += r.get("checks", 0)
        tdig_all.add(r.get("tdigest"))
        if r.get("nontrivial"):
            tdig_nontrivial.add(r.get("tdigest"))
        if "trace" in r and st == "ok" and len(samples) < 3:
            samples.append({"run_index": r["i"], "run_seed": r["seed"], "config": r["trace"].get("config"), "ops": r["trace"]["ops"][:40]})
        if st == "violation" and len(bad) < 200:
            bad.append(r)

    results, errors = run_batch(pid, tier, base, nruns, workers, split, deadline, on_result=fold)
    harness.extend(errors)
    skipped = counters["skipped"]
    ndone = counters["done"]
    nops, checks = counters["nops"], counters["checks"]
    if len(results) != nruns and not errors:
        harness.append(f"expected {nruns} run results, got {len(results)}")
    bad.sort(key=lambda r: r["i"])

    # 3. minimise + verify (first run per distinct oracle, at most 3 oracles)
    seen = set()
    minimise_s = float(os.environ.get("VERIF_MINIMISE_S", 90 if tier == "quick" else 240))
    for r in bad:
        if r["oracle"] in seen or len(seen) >= 3:
            continue
        seen.add(r["oracle"])
        path, ok = minimise_and_verify(pid, r, tier, minimise_s)
        if ok:
            try:
                with open(path) as f:
                    det = json.load(f)["violation"].get("detail") or r.get("detail", "")
            except Exception:
                det = r.get("detail", "")
            violations.append((path, r["oracle"], True, det))
        else:
            harness.append(f"violation {r['oracle']} of run seed={r['seed']} did not reproduce on replay ({path}) - downgraded to harness error")

    wall = time.time() - t0
    # 4. report
    kf_index = {k["id"]: k for k in known if k.get("property") == pid and "id" in k}
    for kid in sorted(known_hits):
        k = kf_index.get(kid, {})
        print(f"KNOWN-FINDING: property={pid} {kid}: {k.get('what', '')} (hit {known_hits[kid]} times)")
    for kid, fp in stale:
        print(f"WARNING stale known finding {kid}: corpus trace {fp} no longer hits it")
    zero = [p for p in getattr(prop, "PROBES", []) if agg_probes.get(p, 0) == 0]
    if zero:
        print("WARNING probes at zero:", ", ".join(zero))
    for path, oracle, _, detail in violations:
        print(f"violation oracle={oracle}: {detail[:600]}")
        print(f"VIOLATION property={pid} replay={path}")
    for h in harness[:10]:
        print("HARNESS-ERROR:", h)

    # 5. evidence
    ev = {
        "property_id": pid,
        "tier": tier,
        "seed": base,
        "level": prop.LEVEL,
        "wall_s": round(wall, 2),
        "violations": len(violations),
        "coverage": {
            "evaluations": ndone,
            "distinct_nontrivial": len(tdig_nontrivial),
            "rule": prop.RULE,
            "samples": samples or [{"note": "no fault-free sample retained"}],
            "distinct_traces": len(tdig_all),
            "operations_executed": nops,
            "oracle_checks": checks,
            "operations_by_kind": dict(sorted(agg_ops.items())),
            "faults_fired_by_kind": dict(sorted(agg_faults.items())),
            "probes": dict(sorted(agg_probes.items())),
            "probes_at_zero": zero,
            "distinct_model_states": len(states),
            "distinct_interleavings_4gram": len(kgrams),
            "runs_per_hour": int(ndone / wall * 3600) if wall > 0 else 0,
            "simulated_time": "none: rdflib has no clocks or timers on these paths; unit of progress = scheduler step (operations_executed)",
            "corpus_traces_run": len(corp),
            "hashseeds": rng.NHASH,
            "truncated_by_wall_cap": skipped > 0,
            "runs_skipped_by_wall_cap": skipped,
            "max_line_events_under_budget": max_steps,
            "known_findings_matched": known_hits,
            "real_components": prop.REAL,
            "stub_components": prop.STUB,
            "harness_errors": len(harness),
        },
        "assumptions": prop.ASSUMPTIONS,
    }
    os.makedirs(EVID, exist_ok=True)
    with open(os.path.join(EVID, f"{pid}.json"), "w") as f:
        json.dump(ev, f, indent=1, sort_keys=False)
    print(f"{pid}: runs={ndone} ops={nops} checks={checks} states={len(states)} violations={len(violations)} harness_errors={len(harness)} wall={wall:.1f}s", flush=True)
    if violations:
        return 1
    if harness:
        return 2
    return 0


def main(argv):
    if not argv:
        print(__doc__)
        return 2
    cmd = argv[0]
    args = {}
    rest = argv[1:]
    i = 0
    pos = []
    while i < len(rest):
        a = rest[i]
        if a.startswith("--"):
            args[a[2:]] = rest[i + 1]
            i += 2
        else:
            pos.append(a)
            i += 1
    if cmd.startswith("selftest"):
        from . import selftest

        return selftest.main(cmd, pos, args)
    pid = cmd.upper()
    if pid not in kernel.CLAIMED:
        print(f"unknown property {pid}; claimed: {kernel.CLAIMED}")
        return 2
    if "replay" in args:
        return do_replay(pid, args["replay"])
    tier = args.get("tier") or os.environ.get("VERIF_TIER") or "quick"
    if tier not in ("quick", "thorough"):
        tier = "quick"
    return check(pid, tier, args)
